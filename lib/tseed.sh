#!/bin/bash
# usage: lib/tseed.sh <seed dir with patch.diff> <PROP>...  - run quick checks against a seeded patch applied to /repo, then revert
d=$1; shift
git -C /repo apply $d/patch.diff || exit 2
# evidence written while the patch is applied describes the mutated tree: put the committed files back afterwards
save=$(mktemp -d); cp /verif/evidence/*.json $save/
for p in "$@"; do /verif/bin/check $p --tier quick 2>&1 | grep -E "VIOLATION|rules=|$p quick|TOOL"; done
git -C /repo checkout -- .
rm -f /verif/replays/*
cp $save/*.json /verif/evidence/; rm -rf $save
