#!/usr/bin/env python3
"""Orchestrator for the miniz_oxide model-based checks.

  bin/check <PROPERTY> [--tier quick|thorough] [--replay PATH]
  bin/setup

Pipeline per property (see DESIGN.md): build harness from /repo's working tree ->
TLC model checking of the models serving the property -> harness scenarios (real code,
ndjson traces) -> TLC trace validation against spec/trace/Trace.tla -> confirm each
failure in isolation -> VIOLATION / KNOWN-FINDING lines -> evidence/<id>.json.

Exit codes: 0 property held on everything explored; 1 violation (with a VIOLATION line);
2 tool error / timeout (never a verdict).
"""
import json, os, re, shutil, subprocess, sys, time, hashlib

ROOT = os.path.dirname(os.path.dirname(os.path.abspath(__file__)))
SPEC = os.path.join(ROOT, "spec")
HARNESS = os.path.join(ROOT, "harness")
WORK = os.path.join(ROOT, "work")
JAVA_CP = "/opt/veriftools/tla/tla2tools.jar:/opt/veriftools/tla/CommunityModules-deps.jar"
LIBPATH = os.pathsep.join([SPEC + "/", os.path.join(SPEC, "trace") + "/", os.path.join(SPEC, "mc") + "/"])


class ToolError(Exception):
    pass


class HarnessCrash(Exception):
    def __init__(self, scenario, case, rc, err):
        Exception.__init__(self, "harness died in scenario %s case %s rc=%s" % (scenario, case, rc))
        self.scenario, self.case, self.rc, self.err = scenario, case, rc, err


def log(*a):
    print("[check]", *a, flush=True)


def run(cmd, timeout=3600, env=None, cwd=None):
    e = dict(os.environ)
    if env:
        e.update(env)
    p = subprocess.run(cmd, stdout=subprocess.PIPE, stderr=subprocess.STDOUT, timeout=timeout, env=e, cwd=cwd)
    return p.returncode, p.stdout.decode("utf-8", "replace")


# ---------------------------------------------------------------- harness
def build_harness(profile="release", features=None):
    env = {"CARGO_NET_OFFLINE": "true"}
    cmd = ["cargo", "build", "--offline", "--quiet"]
    if profile == "release":
        cmd.append("--release")
    elif profile != "dev":
        cmd += ["--profile", profile]
    tdir = "target"
    if features:
        cmd += ["--features", ",".join(features)]
        tdir = "target-" + "-".join(features)
        cmd += ["--target-dir", tdir]
    t0 = time.time()
    rc, out = run(cmd, timeout=1800, env=env, cwd=HARNESS)
    if rc != 0:
        raise ToolError("harness build failed:\n" + out[-4000:])
    sub = {"release": "release", "dev": "debug"}.get(profile, profile)
    path = os.path.join(HARNESS, tdir, sub, "drv")
    if not os.path.exists(path):
        raise ToolError("harness binary missing: " + path)
    log("harness built (%s%s) in %.1fs" % (profile, " +" + ",".join(features) if features else "", time.time() - t0))
    return path


def drv(binpath, scenario, seed, tier, outdir, shards, only=None, extra=None, timeout=1800):
    os.makedirs(outdir, exist_ok=True)
    cmd = [binpath, scenario, "--seed", str(seed), "--tier", tier, "--out", outdir, "--shards", str(shards)]
    if only:
        cmd += ["--only", only]
    if extra:
        cmd += extra
    p = subprocess.run(cmd, stdout=subprocess.PIPE, stderr=subprocess.PIPE, timeout=timeout)
    if p.returncode < 0 or p.returncode in (3, 4, 101, 134, 139):
        # the harness itself died inside the code under test (fault on a guard page, abort, hang watchdog)
        case = ""
        try:
            case = open(os.path.join(outdir, "current_case")).read()
        except Exception:
            pass
        raise HarnessCrash(scenario, case, p.returncode, p.stderr.decode()[-1500:])
    if p.returncode != 0:
        raise ToolError("drv %s failed rc=%d: %s" % (scenario, p.returncode, p.stderr.decode()[-2000:]))
    last = p.stdout.decode().strip().splitlines()[-1]
    return json.loads(last)


# ---------------------------------------------------------------- TLC
def tlc_cmd(xmx="4g", props=None):
    cmd = ["java", "-XX:+UseSerialGC", "-Xss1g", "-Xmx" + xmx, "-DTLA-Library=" + LIBPATH]
    for p in props or []:
        cmd.append(p)
    cmd += ["-cp", JAVA_CP, "tlc2.TLC"]
    return cmd


FAIL_RE = re.compile(r'<<\s*"FAIL",\s*"([^"]*)",\s*"([^"]*)",\s*(\d+),\s*<<(.*?)>>\s*>>', re.S)
DRIFT_RE = re.compile(r'<<\s*"DRIFT",(.*?)>>', re.S)
CONS_RE = re.compile(r'<<\s*"CONSUMED",\s*(\d+),\s*"FAILS",\s*(\d+),\s*"RULES",\s*(\d+),\s*"SEEN",\s*\{(.*?)\}\s*>>', re.S)
STATES_RE = re.compile(r'(\d+) states generated, (\d+) distinct states found')
NOTE_RE = re.compile(r'<<\s*"NOTE",(.*?)>>', re.S)


def parse_trace_output(out):
    res = {"fails": [], "drift": [], "consumed": None, "rules": 0, "seen": [], "states": 0, "generated": 0,
           "notes": []}
    for m in FAIL_RE.finditer(out):
        rules = re.findall(r'"([^"]*)"', m.group(4))
        res["fails"].append({"prop": m.group(1), "case": m.group(2), "line": int(m.group(3)), "rules": rules})
    for m in DRIFT_RE.finditer(out):
        res["drift"].append(" ".join(m.group(1).split()))
    for m in NOTE_RE.finditer(out):
        res["notes"].append(" ".join(m.group(1).split()))
    m = None
    for m in CONS_RE.finditer(out):
        pass
    if m:
        res["consumed"] = int(m.group(1))
        res["nfail"] = int(m.group(2))
        res["rules"] = int(m.group(3))
        res["seen"] = re.findall(r'"([^"]*)"', m.group(4))
    for m in STATES_RE.finditer(out):
        res["generated"], res["states"] = int(m.group(1)), int(m.group(2))
    res["tlc_error"] = None
    if "Model checking completed. No error has been found." not in out:
        res["tlc_error"] = out[-3000:]
    return res


def tlc_trace_many(paths, workbase, module="Trace", timeout=3600, maxpar=8):
    """Validate each ndjson trace with TLC (one JVM per shard, at most maxpar at a time)."""
    procs = []
    results = {}
    pending = list(enumerate(paths))
    running = []
    t0 = time.time()
    while pending or running:
        while pending and len(running) < maxpar:
            k, p = pending.pop(0)
            if os.path.getsize(p) == 0:
                results[p] = {"fails": [], "drift": [], "consumed": 0, "rules": 0, "seen": [], "states": 0,
                              "generated": 0, "tlc_error": None, "empty": True, "notes": []}
                continue
            md = os.path.join(workbase, "tlc%d" % k)
            shutil.rmtree(md, ignore_errors=True)
            os.makedirs(md, exist_ok=True)
            outp = os.path.join(md, "out.txt")
            cmd = tlc_cmd() + ["-workers", "1", "-config", os.path.join(SPEC, "trace", module + ".cfg"),
                               "-metadir", os.path.join(md, "states"), "-cleanup", "-noGenerateSpecTE",
                               os.path.join(SPEC, "trace", module + ".tla")]
            env = dict(os.environ)
            env["TRACE"] = p
            f = open(outp, "wb")
            pr = subprocess.Popen(cmd, stdout=f, stderr=subprocess.STDOUT, env=env, cwd=md)
            running.append((pr, p, outp, f))
        time.sleep(0.1)
        still = []
        for pr, p, outp, f in running:
            if pr.poll() is None:
                if time.time() - t0 > timeout:
                    pr.kill()
                    raise ToolError("TLC trace validation timed out on " + p)
                still.append((pr, p, outp, f))
            else:
                f.close()
                out = open(outp, errors="replace").read()
                results[p] = parse_trace_output(out)
        running = still
    return results


def tlc_mc(module, cfg=None, workers=4, timeout=3600, xmx="8g", extra=None, workbase=None):
    """Run an exhaustive model-checking config from spec/mc. Returns dict with states, transitions,
    violated invariants, coverage per action."""
    md = os.path.join(workbase or WORK, "mc-" + module + ("-" + os.path.basename(cfg) if cfg else ""))
    shutil.rmtree(md, ignore_errors=True)
    os.makedirs(md, exist_ok=True)
    cfgp = os.path.join(SPEC, "mc", cfg or (module + ".cfg"))
    cmd = tlc_cmd(xmx=xmx) + ["-workers", str(workers), "-coverage", "1", "-config", cfgp,
                              "-metadir", os.path.join(md, "states"), "-cleanup", "-noGenerateSpecTE"]
    cmd += extra or []
    cmd += [os.path.join(SPEC, "mc", module + ".tla")]
    t0 = time.time()
    try:
        rc, out = run(cmd, timeout=timeout, cwd=md)
    except subprocess.TimeoutExpired:
        raise ToolError("TLC model checking timed out: " + module)
    open(os.path.join(md, "out.txt"), "w").write(out)
    res = {"module": module, "cfg": cfg or module + ".cfg", "wall_s": round(time.time() - t0, 1), "rc": rc,
           "states": 0, "generated": 0, "violations": [], "coverage": {}, "cmd": " ".join(cmd[:1] + cmd[5:])}
    for m in STATES_RE.finditer(out):
        res["generated"], res["states"] = int(m.group(1)), int(m.group(2))
    for m in re.finditer(r'Invariant (\S+) is violated', out):
        res["violations"].append(m.group(1))
    for m in re.finditer(r'(Temporal properties were violated|Action property \S+ is violated|Deadlock reached)', out):
        res["violations"].append(m.group(1))
    # per-action coverage: lines like "<Action line 10, col 1 to line 12, col 20 of module X>: 12:34"
    for m in re.finditer(r'<(\w+) line \d+, col \d+ to line \d+, col \d+ of module (\w+)>: (\d+):(\d+)', out):
        res["coverage"][m.group(1)] = {"distinct": int(m.group(3)), "taken": int(m.group(4))}
    res["notes"] = [" ".join(m.group(1).split()) for m in NOTE_RE.finditer(out)]
    ok = "Model checking completed. No error has been found." in out
    if not ok and not res["violations"]:
        raise ToolError("TLC failed on %s:\n%s" % (module, out[-3000:]))
    res["ok"] = ok
    if res["violations"]:
        # keep the counterexample text
        i = out.find("Error:")
        res["counterexample"] = out[i:i + 3000]
    return res


# ---------------------------------------------------------------- findings / evidence
def load_known():
    p = os.path.join(ROOT, "KNOWN_FINDINGS.json")
    try:
        return json.load(open(p)).get("known", [])
    except Exception:
        return []


def match_known(prop, fail, known):
    for k in known:
        if k.get("property") != prop:
            continue
        if "rule" in k and k["rule"] not in fail["rules"]:
            continue
        if "case_regex" in k and not re.search(k["case_regex"], fail["case"]):
            continue
        return k
    return None


def trunc(v, n=24):
    if isinstance(v, list):
        if len(v) > n and all(isinstance(x, int) for x in v[:n]):
            return v[:n] + ["...(%d more)" % (len(v) - n)]
        return [trunc(x, n) for x in v[:n]]
    if isinstance(v, dict):
        return {k: trunc(x, n) for k, x in v.items()}
    return v


def sample_cases(paths, want=3, maxev=12):
    out = []
    for p in paths:
        if len(out) >= want:
            break
        cur = None
        try:
            with open(p) as f:
                for line in f:
                    e = json.loads(line)
                    if e.get("ev") == "case":
                        if cur and len(out) < want:
                            out.append(cur)
                        if len(out) >= want:
                            cur = None
                            break
                        cur = {"case": e.get("id"), "events": []}
                    elif cur is not None and len(cur["events"]) < maxev:
                        cur["events"].append(trunc(e))
                if cur and len(out) < want:
                    out.append(cur)
        except Exception:
            pass
    return out


SUSP_RE = re.compile(rb'"ev":"dec".*?"st":"([A-Za-z0-9]+)","status":"([A-Za-z0-9]+)"')


def suspension_points(paths, limit_bytes=400_000_000):
    """(decoder state, exit status) pairs seen in dec events (from the verif_state hook)."""
    seen = {}
    budget = limit_bytes
    for p in paths:
        try:
            with open(p, "rb") as f:
                for line in f:
                    budget -= len(line)
                    if budget < 0:
                        return seen
                    if b'"ev":"dec"' not in line[:400] and b'"ev":"dec"' not in line:
                        continue
                    m = SUSP_RE.search(line)
                    if m:
                        k = m.group(1).decode() + "/" + m.group(2).decode()
                        seen[k] = seen.get(k, 0) + 1
        except Exception:
            pass
    return seen


DEC_RE = re.compile(rb'"ev":"dec".*?"obj":(\d+).*?"st":"([A-Za-z0-9]+)","status":"([A-Za-z0-9]+)"')
DNEW_RE = re.compile(rb'"ev":"dnew".*?"obj":(\d+)')


def decoder_calls(paths, limit_bytes=400_000_000):
    """(state the call resumed from, state it ended in) pairs of the low-level decoder objects, from the
    verif_state hook fields of consecutive dec events of the same object."""
    seen = {}
    budget = limit_bytes
    for p in paths:
        last = {}
        try:
            with open(p, "rb") as f:
                for line in f:
                    budget -= len(line)
                    if budget < 0:
                        return seen
                    if b'"ev":"case"' in line[:60]:
                        last = {}
                        continue
                    if b'"ev":"dnew"' in line[:80]:
                        m = DNEW_RE.search(line)
                        if m:
                            last[m.group(1)] = "Start"
                        continue
                    if b'"ev":"dec"' not in line:
                        continue
                    m = DEC_RE.search(line)
                    if m:
                        o, st, status = m.group(1), m.group(2).decode(), m.group(3).decode()
                        if status != "BadParam" and o in last:
                            k = last[o] + ">" + st
                            seen[k] = seen.get(k, 0) + 1
                        if status != "BadParam":
                            last[o] = "ReadBlockHeader" if status == "BlockBoundary" else st
        except Exception:
            pass
    return seen


def extract_case(paths, case_id, dest):
    """Copy the events of one case out of sharded traces."""
    for p in paths:
        keep = False
        lines = []
        with open(p) as f:
            for line in f:
                if line.startswith('{"ev":"case"') or '"ev":"case"' in line[:40]:
                    e = json.loads(line)
                    keep = e.get("id") == case_id
                if keep:
                    lines.append(line)
        if lines:
            with open(dest, "w") as g:
                g.writelines(lines)
            return True
    return False


def write_evidence(prop, tier, seed, level, coverage, wall, violations, assumptions):
    os.makedirs(os.path.join(ROOT, "evidence"), exist_ok=True)
    ev = {"property_id": prop, "tier": tier, "seed": seed, "level": level, "coverage": coverage,
          "assumptions": assumptions, "wall_s": round(wall, 1), "violations": violations}
    tmp = os.path.join(ROOT, "evidence", prop + ".json.tmp")
    json.dump(ev, open(tmp, "w"), indent=1)
    os.replace(tmp, os.path.join(ROOT, "evidence", prop + ".json"))


# ---------------------------------------------------------------- generic pipeline
class Check:
    def __init__(self, prop, tier, seed):
        self.prop, self.tier, self.seed = prop, tier, seed
        self.t0 = time.time()
        self.work = os.path.join(WORK, "%s-%s" % (prop, tier))
        shutil.rmtree(self.work, ignore_errors=True)
        os.makedirs(self.work, exist_ok=True)
        self.mc = []
        self.trace_results = {}
        self.scn = []
        self.violations = []      # (fail, replay)
        self.known_hits = []
        self.notes = []
        self.extra_cov = {}
        self.bins = {}

    def bin(self, profile="release", features=None):
        key = (profile, tuple(features or []))
        if key not in self.bins:
            self.bins[key] = build_harness(profile, features)
        return self.bins[key]

    def tool_error(self, msg):
        raise ToolError(msg)

    def decoder_state_model(self):
        """Model-check spec/InflateStates.tla; its reachable (state, status) and (from, to) pairs are
        the denominator of the decoder coverage reported in the evidence."""
        r = self.model_check("MC_InflateStates", "MC_InflateStates.cfg", workers=1)
        out = open(os.path.join(self.work, "mc-MC_InflateStates-MC_InflateStates.cfg", "out.txt")).read()
        pairs = re.findall(r'<<\s*"PAIR",\s*"(\w+)",\s*"(\w+)"\s*>>', out)
        calls = re.findall(r'<<\s*"CALL",\s*"(\w+)",\s*"(\w+)"\s*>>', out)
        if not pairs or not calls:
            raise ToolError("InflateStates: no reachable pairs printed")
        self.state_model = {"pairs": [a + "/" + b for a, b in pairs], "calls": [a + ">" + b for a, b in calls]}
        return r

    def model_check(self, module, cfg=None, workers=4, timeout=3600, expect_ok=True, extra=None, xmx="8g"):
        r = tlc_mc(module, cfg, workers, timeout, extra=extra, workbase=self.work, xmx=xmx)
        self.mc.append(r)
        log("MC %s/%s: %d distinct states, %d generated, %.1fs, violations=%s" % (
            module, r["cfg"], r["states"], r["generated"], r["wall_s"], r["violations"]))
        if r["violations"] and expect_ok:
            # the models are written from the specification side and do not depend on the tree under
            # test: a violated model invariant is an error in the specification, never a verdict
            raise ToolError("model %s/%s violates %s:\n%s" % (module, r["cfg"], r["violations"], r.get("counterexample", "")[:2000]))
        return r

    def generate(self, module, cfg, num, depth, seed=None, timeout=900):
        """Run TLC in -simulate mode; each finished behaviour is appended as one JSON line to the
        returned file (the spec writes to IOEnv.GEN_OUT)."""
        out = os.path.join(self.work, "gen-%s.ndjson" % os.path.basename(cfg))
        if os.path.exists(out):
            os.remove(out)
        # generation depends only on the specification files, the config, the seed and the volume:
        # reuse an identical earlier generation of this checkout (several checks draw the same streams)
        h = hashlib.sha1()
        for fn in sorted(os.listdir(SPEC)) + [os.path.join("mc", module + ".tla"), os.path.join("mc", cfg)]:
            fp = os.path.join(SPEC, fn)
            if os.path.isfile(fp):
                h.update(open(fp, "rb").read())
        key = "%s-%s-%d-%d-%s" % (os.path.basename(cfg), seed or self.seed, num, depth, h.hexdigest()[:16])
        cdir = os.path.join(WORK, "gen-cache")
        os.makedirs(cdir, exist_ok=True)
        cached = os.path.join(cdir, key + ".ndjson")
        if os.path.exists(cached) and os.path.getsize(cached) > 0:
            shutil.copy(cached, out)
            n = sum(1 for _ in open(out))
            log("TLC -simulate %s/%s: %d behaviours reused from an identical generation (%s)" % (module, cfg, n, key))
            self.mc.append({"module": module, "cfg": cfg + " (-simulate num=%d depth=%d, reused)" % (num, depth), "states": 0,
                            "generated": 0, "wall_s": 0.0, "violations": [], "coverage": {}, "cmd": "reused " + key, "behaviours": n})
            return out
        md = os.path.join(self.work, "gen-" + os.path.basename(cfg))
        shutil.rmtree(md, ignore_errors=True)
        os.makedirs(md, exist_ok=True)
        cmd = tlc_cmd() + ["-workers", "1", "-simulate", "num=%d" % num, "-depth", str(depth), "-seed", str(seed or self.seed),
                           "-config", os.path.join(SPEC, "mc", cfg), "-metadir", os.path.join(md, "states"), "-cleanup",
                           "-noGenerateSpecTE", os.path.join(SPEC, "mc", module + ".tla")]
        t0 = time.time()
        rc, o = run(cmd, timeout=timeout, env={"GEN_OUT": out}, cwd=md)
        if "Invariant" in o and "violated" in o:
            raise ToolError("generator/acceptor disagreement in simulation:\n" + o[-3000:])
        n = sum(1 for _ in open(out)) if os.path.exists(out) else 0
        m = re.search(r'The number of states generated: (\d+)', o)
        log("TLC -simulate %s/%s: %d behaviours written, %s states, %.1fs" % (module, cfg, n, m.group(1) if m else "?", time.time() - t0))
        self.mc.append({"module": module, "cfg": cfg + " (-simulate num=%d depth=%d)" % (num, depth), "states": int(m.group(1)) if m else 0,
                        "generated": int(m.group(1)) if m else 0, "wall_s": round(time.time() - t0, 1), "violations": [],
                        "coverage": {}, "cmd": " ".join(cmd[5:]), "behaviours": n})
        if n == 0:
            raise ToolError("generator produced nothing:\n" + o[-2000:])
        shutil.copy(out, cached)
        return out

    def scenario(self, name, profile="release", features=None, shards=None, module="Trace", maxpar=8, extra=None):
        binp = self.bin(profile, features)
        outdir = os.path.join(self.work, "tr-" + name + ("-" + profile if profile != "release" else "") +
                              ("-" + "-".join(features) if features else ""))
        t0 = time.time()
        try:
            s = drv(binp, name, self.seed, self.tier, outdir, shards or maxpar, extra=extra)
        except HarnessCrash as hc:
            os.makedirs(os.path.join(ROOT, "replays"), exist_ok=True)
            rp = os.path.join(ROOT, "replays", "%s-crash-%s.json" % (self.prop, re.sub(r'[^A-Za-z0-9_.-]', '_', hc.case)[:60]))
            json.dump({"property": self.prop, "scenario": name, "seed": self.seed, "tier": self.tier, "case": hc.case,
                       "rc": hc.rc, "stderr": hc.err, "profile": profile, "features": features or [],
                       "what": "the process running the code under test died (signal / abort) in this case"},
                      open(rp, "w"), indent=1)
            print("VIOLATION property=%s replay=%s" % (self.prop, rp), flush=True)
            print("  case=%s rules=process_died_rc_%s" % (hc.case, hc.rc), flush=True)
            self.violations.append({"case": hc.case, "rules": ["process_died"], "replay": rp})
            return None
        # merge shards by volume: one TLC process per ~6 MB of trace, at most maxpar
        if shards is None:
            files = sorted([(sz, pth) for sz, pth in zip(s["bytes"], s["shards"]) if sz > 0], reverse=True)
            total = sum(sz for sz, _ in files)
            want = max(1, min(maxpar, total // 6_000_000 + 1))
            groups = [[0, []] for _ in range(want)]
            for sz, pth in files:
                g = min(groups, key=lambda x: x[0])
                g[0] += sz
                g[1].append(pth)
            merged = []
            for gi, (gsz, pths) in enumerate(groups):
                if not pths:
                    continue
                mp = os.path.join(outdir, "merged.%d.ndjson" % gi)
                with open(mp, "wb") as out:
                    for pth in pths:
                        with open(pth, "rb") as f:
                            shutil.copyfileobj(f, out)
                merged.append((gsz, mp))
            for _, pth in files:
                os.remove(pth)
            s["shards"] = [m[1] for m in merged] or s["shards"][:1]
            s["bytes"] = [m[0] for m in merged] or s["bytes"][:1]
        log("drv %s: %d cases, %d events, %.1f MB, %d shard(s), %.1fs" % (
            name, s["cases"], s["events"], sum(s["bytes"]) / 1e6, len(s["shards"]), time.time() - t0))
        t1 = time.time()
        res = tlc_trace_many(s["shards"], outdir, module=module, maxpar=maxpar)
        nf = sum(len(r["fails"]) for r in res.values())
        st = sum(r["states"] for r in res.values())
        log("TLC trace validation %s: %d states, %d rule evaluations, %d FAIL lines, %.1fs" % (
            name, st, sum(r["rules"] for r in res.values()), nf, time.time() - t1))
        for p, r in res.items():
            if r["tlc_error"]:
                raise ToolError("TLC error on %s:\n%s" % (p, r["tlc_error"]))
            nlines = sum(1 for _ in open(p))
            if not r.get("empty") and r["consumed"] != nlines:
                raise ToolError("trace %s not fully consumed (%s of %d lines)" % (p, r["consumed"], nlines))
        entry = {"name": name, "profile": profile, "features": features or [], "summary": s, "results": res,
                 "outdir": outdir, "module": module, "extra": extra}
        self.scn.append(entry)
        self.handle_fails(entry)
        return entry

    def handle_fails(self, entry):
        known = load_known()
        seen_cases = set()
        for p, r in entry["results"].items():
            for d in r["drift"]:
                self.notes.append("model drift: " + d)
            for f in r["fails"]:
                key = f["case"]
                if key in seen_cases:
                    continue
                seen_cases.add(key)
                if len(self.violations) >= 3 or len(seen_cases) > 8:
                    continue
                # confirm in isolation: re-execute the single case in a fresh process
                binp = self.bin(entry["profile"], entry["features"])
                cdir = os.path.join(self.work, "confirm-%s" % hashlib.md5(f["case"].encode()).hexdigest()[:10])
                s = drv(binp, entry["name"], self.seed, self.tier, cdir, 1, only=f["case"], extra=entry.get("extra"))
                res = tlc_trace_many(s["shards"], cdir, module=entry["module"])
                rr = list(res.values())[0]
                confirmed = [x for x in rr["fails"] if x["case"] == f["case"]]
                if rr["tlc_error"] or not confirmed:
                    self.notes.append("unconfirmed failure (not reproduced in isolation): %s %s" % (f["case"], f["rules"]))
                    continue
                allrules = sorted({r for x in confirmed for r in x["rules"]})
                f2 = dict(f)
                f2["rules"] = allrules
                k = match_known(self.prop, f2, known)
                if k:
                    print("KNOWN-FINDING: property=%s %s (case %s, rules %s)" % (
                        self.prop, k.get("what", ""), f["case"], ",".join(allrules)), flush=True)
                    self.known_hits.append({"finding": k.get("id"), "case": f["case"], "rules": allrules})
                    continue
                os.makedirs(os.path.join(ROOT, "replays"), exist_ok=True)
                safe = re.sub(r'[^A-Za-z0-9_.-]', '_', f["case"])[:80]
                rp = os.path.join(ROOT, "replays", "%s-%s.ndjson" % (self.prop, safe))
                shutil.copy(s["shards"][0], rp)
                json.dump({"property": self.prop, "scenario": entry["name"], "seed": self.seed, "tier": self.tier,
                           "case": f["case"], "rules": allrules, "profile": entry["profile"],
                           "features": entry["features"], "module": entry["module"]},
                          open(rp + ".meta.json", "w"), indent=1)
                print("VIOLATION property=%s replay=%s" % (self.prop, rp), flush=True)
                print("  case=%s rules=%s" % (f["case"], ",".join(allrules)), flush=True)
                self.violations.append({"case": f["case"], "rules": allrules, "replay": rp})

    def finish(self, level, rule, assumptions, explanation=None):
        cases = sum(e["summary"]["cases"] for e in self.scn)
        tstates = sum(r["states"] for e in self.scn for r in e["results"].values())
        rules = sum(r["rules"] for e in self.scn for r in e["results"].values())
        seen = sorted({x for e in self.scn for r in e["results"].values() for x in r["seen"]})
        mc_states = sum(m["states"] for m in self.mc)
        mc_trans = sum(m["generated"] for m in self.mc)
        paths = [p for e in self.scn for p in e["summary"]["shards"]]
        samples = sample_cases(paths, 3)
        for m in self.mc[:3]:
            samples.append({"model": m["module"], "cfg": m["cfg"], "states": m["states"],
                            "actions": dict(list(m["coverage"].items())[:12])})
        cov = {
            "states": max(1, mc_states + tstates),
            "transitions": max(1, mc_trans + tstates),
            "traces_validated_against_impl": cases,
            "samples": samples or [{"note": "no samples"}],
            "model_checking": [{k: m[k] for k in ("module", "cfg", "states", "generated", "wall_s", "violations",
                                                   "coverage", "cmd")} for m in self.mc],
            "model_states": mc_states, "model_transitions": mc_trans,
            "trace_states": tstates, "trace_rule_evaluations": rules,
            "acceptor_productions_exercised": seen,
            "scenarios": [{"name": e["name"], "profile": e["profile"], "features": e["features"],
                           "cases": e["summary"]["cases"], "events": e["summary"]["events"]} for e in self.scn],
            "evaluations": cases + sum(e["summary"].get("bulk_run", 0) for e in self.scn),
            "distinct_nontrivial": cases,
            "bulk_explored_cases": sum(e["summary"].get("bulk_run", 0) for e in self.scn),
            "bulk_cases_written_for_tlc": sum(e["summary"].get("bulk_kept", 0) for e in self.scn),
            "rule": rule,
            "known_findings_hit": self.known_hits,
            "notes": self.notes[:50],
            "exhaustive": False,
        }
        sp = suspension_points(paths)
        if sp:
            cov["decoder_suspension_points_reached"] = dict(sorted(sp.items()))
            cov["decoder_suspension_points_distinct"] = len(sp)
            model = getattr(self, "state_model", None)
            if model:
                # coverage against the reachable pairs of spec/InflateStates.tla; anything the real
                # decoder shows that the model does not have is model drift (a note, never a verdict)
                mp = set(model["pairs"])
                got = {k for k in sp if not k.endswith("/BadParam")}
                cov["decoder_state_model"] = {
                    "reachable_pairs": len(mp), "reached": len(got & mp),
                    "missed": sorted(mp - got), "not_in_model": sorted(got - mp)}
                calls = decoder_calls(paths)
                mc = set(model["calls"])
                cov["decoder_state_model"]["call_pairs_reachable"] = len(mc)
                cov["decoder_state_model"]["call_pairs_reached"] = len(set(calls) & mc)
                cov["decoder_state_model"]["call_pairs_not_in_model"] = sorted(set(calls) - mc)[:40]
                for k in sorted(got - mp):
                    self.notes.append("model drift: decoder ended a call in %s, which InflateStates does not reach" % k)
                for k in sorted(set(calls) - mc)[:20]:
                    self.notes.append("model drift: decoder call went %s, a step InflateStates does not have" % k)
        if explanation:
            cov["explanation"] = explanation
        cov.update(self.extra_cov)
        write_evidence(self.prop, self.tier, self.seed, level, cov, time.time() - self.t0,
                       len(self.violations), assumptions)
        log("%s %s: %d cases validated, %d model states, %d trace states, %d violation(s), %.1fs" % (
            self.prop, self.tier, cases, mc_states, tstates, len(self.violations), time.time() - self.t0))
        return 1 if self.violations else 0


def replay(path):
    if path.endswith(".json") and not path.endswith(".meta.json"):
        # a crash / hang replay: re-execute the recorded case; it is reproduced if the harness dies again
        meta = json.load(open(path))
        binp = build_harness(meta.get("profile", "release"), meta.get("features") or None)
        wb = os.path.join(WORK, "replay")
        shutil.rmtree(wb, ignore_errors=True)
        try:
            s = drv(binp, meta["scenario"], meta.get("seed", 1), meta.get("tier", "quick"), os.path.join(wb, "re"), 1,
                    only=meta.get("case") or None)
        except HarnessCrash as hc:
            print("re-executed on current tree: process died again (rc=%s) in case %s" % (hc.rc, hc.case))
            print("VIOLATION property=%s replay=%s" % (meta.get("property"), path))
            return 1
        res2 = tlc_trace_many(s["shards"], os.path.join(wb, "re"))
        r2 = list(res2.values())[0]
        print("re-executed on current tree:", json.dumps({"fails": r2["fails"], "consumed": r2["consumed"]}))
        if r2["fails"]:
            print("VIOLATION property=%s replay=%s" % (meta.get("property"), path))
            return 1
        return 0
    meta = {}
    try:
        meta = json.load(open(path + ".meta.json"))
    except Exception:
        pass
    module = meta.get("module", "Trace")
    wb = os.path.join(WORK, "replay")
    shutil.rmtree(wb, ignore_errors=True)
    os.makedirs(wb, exist_ok=True)
    # 1. the recorded trace
    res = tlc_trace_many([path], wb, module=module)
    r = list(res.values())[0]
    print("recorded trace:", json.dumps({"fails": r["fails"], "consumed": r["consumed"]}))
    # 2. re-execute on the current tree
    if meta.get("scenario"):
        binp = build_harness(meta.get("profile", "release"), meta.get("features") or None)
        s = drv(binp, meta["scenario"], meta.get("seed", 1), meta.get("tier", "quick"), os.path.join(wb, "re"), 1,
                only=meta["case"])
        res2 = tlc_trace_many(s["shards"], os.path.join(wb, "re"), module=module)
        r2 = list(res2.values())[0]
        print("re-executed on current tree:", json.dumps({"fails": r2["fails"], "consumed": r2["consumed"]}))
        if r2["fails"]:
            print("VIOLATION property=%s replay=%s" % (meta.get("property"), path))
            return 1
        return 0
    return 1 if r["fails"] else 0


def main():
    import checks
    a = sys.argv[1:]
    if not a:
        print(__doc__)
        return 2
    if a[0] == "setup":
        build_harness("release")
        build_harness("release", ["simd"])
        # sanity: SANY parses every spec
        return 0
    prop = a[0]
    tier = os.environ.get("VERIF_TIER", "quick")
    rp = None
    i = 1
    while i < len(a):
        if a[i] == "--tier":
            tier = a[i + 1]
            i += 1
        elif a[i] == "--replay":
            rp = a[i + 1]
            i += 1
        i += 1
    seed = int(os.environ.get("VERIF_SEED", "1"))
    try:
        if rp:
            return replay(rp)
        fn = getattr(checks, "check_" + prop, None)
        if fn is None:
            print("no check for", prop)
            return 2
        return fn(Check(prop, tier, seed))
    except ToolError as e:
        print("TOOL-ERROR:", e, flush=True)
        return 2
    except subprocess.TimeoutExpired as e:
        print("TOOL-ERROR: timeout", e, flush=True)
        return 2


if __name__ == "__main__":
    sys.exit(main())
