#!/usr/bin/env python3
"""Binding self-test: the trace specification must constrain more than length.
Take traces of real executions that validate cleanly, corrupt one logged field (or drop one
event) and require TLC to reject the corrupted trace. Exit 0 iff every corruption is rejected."""
import json, os, shutil, sys
sys.path.insert(0, os.path.dirname(os.path.abspath(__file__)))
import orchestrate as O

def validate(path, wb):
    res = O.tlc_trace_many([path], wb)
    r = list(res.values())[0]
    return r

def first_case(scn, binp, wb, seed=1):
    d = os.path.join(wb, "src-" + scn)
    s = O.drv(binp, scn, seed, "quick", d, 1)
    # keep only the first few cases to stay fast
    out = os.path.join(wb, scn + ".base.ndjson")
    n = 0
    with open(s["shards"][0]) as f, open(out, "w") as g:
        for line in f:
            if '"ev":"case"' in line:
                n += 1
                if n > 6:
                    break
            g.write(line)
    return out

def mutate(lines, pred, fn):
    out = []
    done = False
    for l in lines:
        e = json.loads(l)
        if not done and pred(e):
            r = fn(e)
            done = True
            if r is None:
                continue
            out.append(json.dumps(r) + "\n")
        else:
            out.append(l)
    return out if done else None

def main():
    wb = os.path.join(O.WORK, "selftest")
    shutil.rmtree(wb, ignore_errors=True)
    os.makedirs(wb, exist_ok=True)
    binp = O.build_harness("release")
    plans = [
        ("oneshot", [
            ("flip one byte of the compressed stream", lambda e: e["ev"] == "stream" and len(e["z"]) > 8, lambda e: dict(e, z=e["z"][:5] + [e["z"][5] ^ 4] + e["z"][6:])),
            ("claim a different round-trip length", lambda e: e["ev"] == "roundtrip" and e["dec"].get("len", 0) > 0, lambda e: dict(e, dec=dict(e["dec"], len=e["dec"]["len"] + 1))),
        ]),
        ("entrypoints", [
            ("change a consumed count", lambda e: e["ev"] == "dec" and e["consumed"] > 1, lambda e: dict(e, consumed=e["consumed"] - 1)),
            ("change a status to Done", lambda e: e["ev"] == "dec" and e["status"] == "NeedsMoreInput", lambda e: dict(e, status="Done")),
            ("change one output byte", lambda e: e["ev"] == "dec" and len(e["data"]) > 2, lambda e: dict(e, data=[e["data"][0] ^ 1] + e["data"][1:])),
            ("drop one decode call", lambda e: e["ev"] == "dec" and e["written"] > 0, lambda e: None),
            ("outside-region flag", lambda e: e["ev"] == "dec", lambda e: dict(e, outside_ok=False)),
            ("inflate: claim stream end early", lambda e: e["ev"] == "inf" and e["status"] == "Ok", lambda e: dict(e, status="StreamEnd")),
        ]),
        ("streamcomp", [
            ("hook: history larger than the window allows", lambda e: e["ev"] == "comp" and "lz" in e and e["lz"]["lasize"] > 0, lambda e: dict(e, lz=dict(e["lz"], dsize=32768))),
            ("hook: look-ahead position off by one", lambda e: e["ev"] == "comp" and "lz" in e and e["lz"]["lapos"] > 0, lambda e: dict(e, lz=dict(e["lz"], lapos=e["lz"]["lapos"] - 1))),
            ("hook: look-ahead + history above the window inside the call", lambda e: e["ev"] == "comp" and "lz" in e,
             lambda e: dict(e, lz=dict(e["lz"], fillmax=32769))),
            ("hook: ring content differs from the input", lambda e: e["ev"] == "comp" and "lz" in e and e["lz"]["dsize"] > 3, lambda e: dict(e, lz=dict(e["lz"], hist_bad=3))),
        ]),
        ("huff", [
            ("hook: one code size shortened", lambda e: e["ev"] == "huff" and sum(1 for x in e["sizes"] if x > 1) >= 2,
             lambda e: dict(e, sizes=[(x - 1 if (x > 1 and i == [j for j, y in enumerate(e["sizes"]) if y > 1][0]) else x) for i, x in enumerate(e["sizes"])])),
            ("hook: one code word changed", lambda e: e["ev"] == "huff" and sum(1 for x in e["sizes"] if x > 0) >= 2,
             lambda e: dict(e, codes=[(c ^ 1 if i == [j for j, y in enumerate(e["sizes"]) if y > 0][0] else c) for i, c in enumerate(e["codes"])])),
        ]),
        ("deflate_protocol", [
            ("written beyond the buffer", lambda e: e["ev"] == "defl" and e["out_len"] > 0, lambda e: dict(e, written=e["out_len"] + 1)),
            ("drop the call that returned stream end", lambda e: e["ev"] == "defl" and e["status"] == "StreamEnd", lambda e: None),
        ]),
        ("checksums", [
            ("change a checksum result", lambda e: e["ev"] == "cksum" and len(e["data"]) > 0, lambda e: dict(e, result=[e["result"][0], e["result"][1] ^ 1])),
        ]),
        ("capi", [
            ("total_in not updated", lambda e: e["ev"] == "c_call" and e["after"]["total_in"] > e["before"]["total_in"], lambda e: dict(e, after=dict(e["after"], total_in=e["before"]["total_in"]))),
            ("different return code", lambda e: e["ev"] == "c_call", lambda e: dict(e, ret=e["ret"] - 1)),
            ("inflate: adler field stale", lambda e: e["ev"] == "c_call" and e["fn"] == "mz_inflate" and e["ret"] == 1 and e.get("zlib") and e["after"]["total_out"] > 0,
             lambda e: dict(e, after=dict(e["after"], adler=[0, 1]))),
        ]),
        ("reset", [
            ("one pair differs", lambda e: e["ev"] == "pair" and isinstance(e["a"], dict), lambda e: dict(e, a=dict(e["a"], consumed=e["a"].get("consumed", 0) + 1))),
        ]),
    ]
    bad = 0
    total = 0
    for scn, muts in plans:
        base = first_case(scn, binp, wb)
        r = validate(base, os.path.join(wb, "v-" + scn))
        if r["tlc_error"] or r["fails"]:
            print("SELFTEST: baseline trace of %s does not validate cleanly: %s" % (scn, r["fails"][:2] or r["tlc_error"][-300:]))
            bad += 1
            continue
        lines = open(base).readlines()
        for name, pred, fn in muts:
            total += 1
            m = mutate(lines, pred, fn)
            if m is None:
                print("SELFTEST: %s / %s: no event to corrupt (skipped)" % (scn, name))
                continue
            p = os.path.join(wb, "%s.mut%d.ndjson" % (scn, total))
            open(p, "w").writelines(m)
            r = validate(p, os.path.join(wb, "m-%d" % total))
            rejected = bool(r["fails"]) or bool(r["tlc_error"])
            print("SELFTEST: %-18s %-40s %s" % (scn, name, "rejected (%s)" % (r["fails"][0]["rules"] if r["fails"] else "tlc error") if rejected else "ACCEPTED"))
            if not rejected:
                bad += 1
    print("SELFTEST: %d corruption(s), %d not rejected" % (total, bad))
    return 1 if bad else 0

if __name__ == "__main__":
    sys.exit(main())
