#!/bin/bash
# Make an isolated snapshot of /verif and /repo under $D for evaluating seeded mutations
# without disturbing /repo or the working copy of /verif.
set -e
D=${1:-/tmp/vsnap}
rm -rf $D/verif; mkdir -p $D
[ -d $D/repo ] && git -C /repo worktree remove --force $D/repo || true
git -C /repo worktree prune
git -C /repo worktree add -q --detach $D/repo HEAD
rsync -a --exclude target --exclude 'target-*' --exclude work --exclude .git /verif/ $D/verif/
sed -i "s|path = \"/repo/miniz_oxide\"|path = \"$D/repo/miniz_oxide\"|; s|path = \"/repo\"|path = \"$D/repo\"|" $D/verif/harness/Cargo.toml
cp $D/repo/Cargo.lock $D/verif/harness/Cargo.lock 2>/dev/null || true
echo snapshot ready
