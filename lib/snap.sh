#!/bin/bash
# Make an isolated snapshot of /verif and /repo under /tmp/vsnap for evaluating seeded mutations
# without disturbing /repo or the working copy of /verif.
set -e
rm -rf /tmp/vsnap/verif; mkdir -p /tmp/vsnap
[ -d /tmp/vsnap/repo ] && git -C /repo worktree remove --force /tmp/vsnap/repo || true
git -C /repo worktree prune
git -C /repo worktree add -q --detach /tmp/vsnap/repo HEAD
rsync -a --exclude target --exclude 'target-*' --exclude work --exclude .git /verif/ /tmp/vsnap/verif/
sed -i 's|path = "/repo/miniz_oxide"|path = "/tmp/vsnap/repo/miniz_oxide"|; s|path = "/repo"|path = "/tmp/vsnap/repo"|' /tmp/vsnap/verif/harness/Cargo.toml
cp /tmp/vsnap/repo/Cargo.lock /tmp/vsnap/verif/harness/Cargo.lock 2>/dev/null || true
echo snapshot ready
