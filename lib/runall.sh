#!/bin/bash
# run every quick (or thorough) check; print one summary line each
tier=${1:-quick}
cd "$(dirname "$0")/.."
for p in C01 C02 C03 C04 C05 C06 C07 C08 C09 C10 C11 C12 C13 C14 C15 C16 C17 C18 C19; do
  s=$(date +%s)
  out=$(bin/check $p --tier $tier 2>&1); rc=$?
  echo "$p rc=$rc $(( $(date +%s) - s ))s $(echo "$out" | grep -c VIOLATION) violations; $(echo "$out" | tail -1)"
  echo "$out" | grep -E "VIOLATION|KNOWN-FINDING|TOOL-ERROR" | head -5
done
