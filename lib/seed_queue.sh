#!/bin/bash
# usage: seed_queue.sh <snapshot dir> <queue file>   (lines: name demo_path feat|- PROP...)
# evaluates each queued seeded mutation (sources in /tmp/seedq/<name>) on its own snapshot
D=$1; Q=$2
/verif/lib/snap.sh $D > /dev/null 2>&1
export VERIF_ROOT=$D/verif REPO_ROOT=$D/repo
cd $D/verif
while read name dpath feat props; do
  [ -z "$name" ] && continue
  [ "$feat" = "-" ] && feat=""
  echo "=== $name ($props)"
  DEMO_PATH=$dpath FEAT="${feat/=/ }" /verif/lib/seed_confirm.sh $name ${SRC_ROOT:-/tmp/seedq}/$name $props 2>&1 | grep -E "^suite|^demo|^check|PATCH"
done < $Q
git -C /repo worktree remove --force $D/repo
rm -rf $D
echo QUEUE-DONE
