import sys
p=sys.argv[1]; tried=sys.argv[2] if len(sys.argv)>2 else ""
prop=open('/tmp/seed/%s.prop.txt'%p).read()
print(f"""You are helping evaluate a verification framework by writing *seeded defects* (mutation testing by hand). You work ONLY inside the scratch git worktree /tmp/seed/{p} (a checkout of the Rust project miniz_oxide: pure-Rust DEFLATE/zlib compressor + streaming decompressor in miniz_oxide/, and a C-ABI shim at the repository root in src/). Do not read or write anything under /verif or /repo. There is no network; use `cargo ... --offline` only. Do not commit anything.

Here is one semantic property the project is supposed to satisfy (JSON record):

{prop}

TASK: produce TWO independent, realistic source changes to the library (each one on its own against the original checkout) that BREAK this property, while
 (1) the workspace still compiles without new warnings being errors, and the complete existing test suite still passes: `cd /tmp/seed/{p} && cargo test --workspace --no-fail-fast --offline` (all tests must pass with your change applied; run it and check);
 (2) the change looks like something a maintainer could plausibly write (a refactor slip, an off-by-one at a boundary, a forgotten state save/restore on an early-return path, a wrong mask/constant, a 'cleanup' that drops a needed case, two cooperating sites where each looks fine alone) - not sabotage like `if input == magic`;
 (3) it needs something SPECIFIC to manifest: a particular multi-step call sequence, a buffer boundary falling at a particular place, an unusual but legal input/stream construct, a particular configuration combination, an early-return/suspension at a particular internal point - NOT something that ordinary use (compress some text, decompress it) exposes at once. Subtle beats blatant. Prefer mechanisms listed in the property's anchors, or others you find by reading the code, that are different from each other.
 (4) you provide a demonstration: a Rust integration test file `seeded_demo.rs` (to be placed at miniz_oxide/tests/seeded_demo.rs, or for C-API properties at tests/seeded_demo.rs of the root crate - say which) using only the public API and crates already available offline, that FAILS with the change and PASSES without it. Run it both ways and record the outputs. Run with e.g. `cargo test --offline -p miniz_oxide --test seeded_demo` (add --release too if behaviour differs between debug and release; say so).
{('Mechanisms ALREADY used by earlier seeded defects - choose different ones: ' + tried) if tried else ''}
DELIVERABLES, written under /tmp/seed/{p}/_out/ :
  _out/a/patch.diff  (output of `git diff` for the library change ONLY - not the demo test), _out/a/seeded_demo.rs, _out/a/README.md
  _out/b/patch.diff, _out/b/seeded_demo.rs, _out/b/README.md
Each README.md states: the change and why it looks innocent; which clause of the property breaks; exactly what is needed for it to manifest; the command lines you ran and the observed pass/fail summary lines for (i) full existing suite with the change, (ii) demo with the change, (iii) demo without the change; where the demo file goes.
Each patch must apply to the ORIGINAL checkout with `git apply`. When finished, leave the worktree clean of your library changes (`git checkout -- .` ; remove the demo test file from the tree; keep only _out/). Do not leave `target` directories bigger than necessary: run `cargo clean` in the worktree at the end.

In your final reply give a 10-line summary: for a and b, the file/function changed, what is needed to manifest, and the confirmed results.""")
