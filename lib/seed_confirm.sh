#!/bin/bash
# Confirm a seeded mutation in a scratch worktree and run the given checks against it.
# usage: seed_confirm.sh <name> <dir with patch.diff + seeded_demo.rs> <PROP> [more props to run...]
# Result: /verif/seeded/<name>/{patch.diff,seeded_demo.rs,README.md,meta.json}
set -u
V=${VERIF_ROOT:-/verif}; R=${REPO_ROOT:-/repo}
name=$1; src=$2; shift 2; props="$@"
if [ -n "${SKIP_CONFIRM:-}" ] && [ -f /verif/seeded/$name/meta.json ]; then
  # re-run the checks only; keep the recorded confirmation
  suite=$(python3 -c "import json;print(json.load(open('/verif/seeded/$name/meta.json'))['confirmed']['suite_with_change'])")
  with=$(python3 -c "import json;print(json.load(open('/verif/seeded/$name/meta.json'))['confirmed']['demo_with_change'])")
  without=$(python3 -c "import json;print(json.load(open('/verif/seeded/$name/meta.json'))['confirmed']['demo_without_change'])")
  demo_path=$(python3 -c "import json;print(json.load(open('/verif/seeded/$name/meta.json')).get('demo_path',''))")
  cd $V
else
wt=/tmp/seedwt/$name
rm -rf $wt; mkdir -p /tmp/seedwt
git -C /repo worktree add -q --detach $wt HEAD || exit 2
demo_path=$(grep -i -m1 -E "place.*at:" $src/seeded_demo.rs | sed -E 's/.*[Aa][Tt]: *//; s/ *$//')
[ -n "${DEMO_PATH:-}" ] && demo_path=$DEMO_PATH
runline=$(grep -i -m1 -E "run with:" $src/seeded_demo.rs | sed -E 's/.*[Ww][Ii][Tt][Hh]: *//')
feat=""; echo "$runline" | grep -q block-boundary && feat="--features block-boundary"
[ -n "${FEAT:-}" ] && feat="$FEAT"
pkg="-p miniz_oxide"; echo "$demo_path" | grep -q "^miniz_oxide_test" && pkg="-p miniz_oxide_test"
echo "$demo_path" | grep -q "^tests/" && pkg="-p miniz_oxide_c_api"
cd $wt
git apply $src/patch.diff || { echo "PATCH DOES NOT APPLY"; git -C /repo worktree remove --force $wt; exit 2; }
suite=$(cargo test --workspace --no-fail-fast --offline 2>&1 | grep -E "^test result" | awk '{p+=$4; f+=$6} END {print p" passed "f" failed"}')
cp $src/seeded_demo.rs $wt/$demo_path
with=$(cd $([ "$pkg" = "-p miniz_oxide" ] && echo miniz_oxide || echo .) && cargo test --offline $([ "$pkg" = "-p miniz_oxide" ] || echo $pkg) $feat --test seeded_demo 2>&1 | grep -E "^test result" | tail -1)
git apply -R $src/patch.diff
without=$(cd $([ "$pkg" = "-p miniz_oxide" ] && echo miniz_oxide || echo .) && cargo test --offline $([ "$pkg" = "-p miniz_oxide" ] || echo $pkg) $feat --test seeded_demo 2>&1 | grep -E "^test result" | tail -1)
cd $V
git -C /repo worktree remove --force $wt
fi
echo "suite_with_change: $suite"; echo "demo_with_change: $with"; echo "demo_without_change: $without"
# now run the checks against the mutated /repo
git -C $R apply $src/patch.diff || exit 2
res=""
for p in $props; do
  out=$(bin/check $p --tier quick 2>&1); rc=$?
  nv=$(echo "$out" | grep -c "^VIOLATION")
  rules=$(echo "$out" | grep "rules=" | sed 's/.*rules=//' | sort -u | tr '\n' ' ')
  echo "check $p rc=$rc violations=$nv rules=$rules"
  res="$res{\"property\":\"$p\",\"rc\":$rc,\"violations\":$nv,\"rules\":\"$rules\"},"
done
git -C $R checkout -- .
rm -f $V/replays/*
mkdir -p /verif/seeded/$name
cp $src/patch.diff $src/seeded_demo.rs /verif/seeded/$name/
[ -f $src/README.md ] && cp $src/README.md /verif/seeded/$name/README.md
cat > /verif/seeded/$name/meta.json <<J
{"name": "$name", "breaks": "$1", "demo_path": "$demo_path",
 "confirmed": {"suite_with_change": "$suite", "demo_with_change": "$with", "demo_without_change": "$without"},
 "checks_run": [${res%,}]}
J
