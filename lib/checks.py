"""Per-property check plans (what is model-checked, which harness scenarios are validated)."""

TRUST = [
    "TLC / SANY 1.8.0 and the CommunityModules (Json, IOUtils, SequencesExt) are correct",
    "spec/Rfc1951.tla is a faithful transcription of RFC 1951/1950 (zlib-compatible choices listed in its header; cross-checked against Python zlib output during development and by the DeflateGen consistency model)",
    "the harness (/verif/harness) logs arguments and results of every call truthfully (binding self-test: bin/selftest corrupts logged fields and requires rejection)",
    "exhaustiveness is relative to the scaled-down constants of the models; real constants are reached by validated executions, which are a seed-varied sample",
]


def thorough(c):
    return c.tier == "thorough"


def mc_params(c):
    c.model_check("MC_DeflateParams", "MC_DeflateParams_full.cfg" if thorough(c) else "MC_DeflateParams.cfg",
                  workers=8 if thorough(c) else 4)


def mc_huff(c):
    """the compressor's Huffman code construction and code-length packer (DeflateHuff.tla), exhaustive at
    small alphabets / limits; the same rules are evaluated on the real optimize_table through the hook"""
    c.model_check("MC_DeflateHuff", "MC_DeflateHuff_huff.cfg", workers=6)
    c.model_check("MC_DeflateHuff", "MC_DeflateHuff_pack.cfg", workers=4)
    r = c.model_check("MC_DeflateHuff", "MC_DeflateHuff_huff_mut.cfg", workers=4, expect_ok=False)
    if not r["violations"]:
        c.tool_error("MC_DeflateHuff: the seeded design mutation was not rejected (invariants lost their teeth)")


def mc_deflate_helpers(c):
    """compress_to_vec's grow-and-retry loop over the DeflateCore model: never the 'Bug!' panic, one whole
    stream returned, termination (weak fairness), for several input sizes and both framings"""
    for cfg in ("0_TRUE", "1_FALSE", "4_TRUE", "9_TRUE", "9_FALSE", "14_FALSE"):
        c.model_check("MC_DeflateHelpers", "MC_DeflateHelpers_%s.cfg" % cfg, workers=2)


def check_C01(c):
    mc_params(c)
    mc_deflate_helpers(c)
    mc_lz(c, ("lazy", "greedy", "rle") if thorough(c) else ("greedy",))
    c.scenario("oneshot")
    return c.finish("model_checking",
                    "one case = one (input, level, format) one-shot compression; the output is parsed token by token by the TLA+ RFC 1951/1950 acceptor against the input and the crate's own decoder result is compared; non-trivial = every case (distinct by construction: level x family x size)",
                    TRUST)


def check_C09(c):
    mc_params(c)
    c.scenario("configs_c09")
    c.scenario("zlibframe")
    return c.finish("model_checking",
                    "one case = one compressor configuration (format, level, strategy, window bits) streamed through compress(); zlib header/trailer judged by the acceptor and the DeflateParams header model",
                    TRUST)


def check_C10(c):
    mc_params(c)
    mc_lz(c, ("rle",))
    mc_huff(c)
    c.scenario("huff")
    c.scenario("configs_c10")
    return c.finish("model_checking",
                    "one case = one compressor configuration on data built to tempt the forbidden token kinds; acceptor token statistics are checked against what DeflateParams says the requested level/strategy requires",
                    TRUST)


def check_C11(c):
    mc_params(c)
    c.scenario("configs_c11")
    return c.finish("model_checking",
                    "one case = one (level, strategy, window bits) configuration on data whose only long-range redundancy lies just beyond the window the header may declare; the acceptor's maximum distance is compared with the declared window",
                    TRUST)


RULE_DEC = ("one case = one stream (valid, mutated, truncated or random) driven through the real decoder along "
            "many call schedules; every call is judged by InflateContract against the verdict of the TLA+ acceptor; "
            "non-trivial = every case (distinct stream x schedule set)")


def gen_streams(c, valid_only):
    """TLC generates streams from the grammar spec (and checks generator/acceptor agreement)."""
    c.model_check("MC_GenAcc", "MC_GenAcc.cfg" if thorough(c) else "MC_GenAcc_quick.cfg", workers=8, timeout=2400)
    if thorough(c):
        # every wide ("counts") palette: generator and acceptor agree on the extreme code-length sets
        c.model_check("MC_GenAcc", "MC_GenAcc_wide.cfg", workers=8, timeout=3600)
    n = 1200 if thorough(c) else 260
    return c.generate("MC_GenAcc", "MC_GenAcc_simvalid.cfg" if valid_only else "MC_GenAcc_sim.cfg", n, 400)


def gen_valid_small(c):
    """a modest set of grammar-generated valid streams for the schedule-driven decoder scenarios"""
    return c.generate("MC_GenAcc", "MC_GenAcc_simvalid.cfg", 400 if thorough(c) else 90, 300)


def mc_inflate_core(c):
    for l in ("LZlib", "LStored", "LLong"):
        c.model_check("MC_InflateCore", "MC_InflateCore_%s.cfg" % l, workers=4)
    c.decoder_state_model()


def check_C03(c):
    g = gen_streams(c, True)
    # several dynamic blocks per stream with long (11..15 bit) distance code words carrying many extra bits
    g3 = c.generate("MC_GenAcc", "MC_GenAcc_simlong.cfg", 900 if thorough(c) else 200, 500)
    # far matches made of maximal code words and extra bits (bit budget of one refill in the fast loop)
    g4 = c.generate("MC_GenAcc", "MC_GenAcc_simfar.cfg", 900 if thorough(c) else 250, 500)
    with open(g, "a") as f:
        f.write(open(g3).read())
        f.write(open(g4).read())
    c.scenario("genstreams", extra=["--in", g])
    c.scenario("entrypoints")
    return c.finish("model_checking", RULE_DEC, TRUST)


def check_C04(c):
    g = gen_streams(c, False)
    g2 = c.generate("MC_GenAcc", "MC_GenAcc_simstale.cfg", 1500 if thorough(c) else 300, 200)
    with open(g, "a") as f:
        f.write(open(g2).read())
    c.scenario("genstreams_c04", extra=["--in", g])
    c.scenario("invalid")
    return c.finish("model_checking", RULE_DEC, TRUST)


def check_C05(c):
    mc_inflate_core(c)
    c.scenario("total")
    # the same histories in a build with overflow checks and debug assertions (the default `cargo test`
    # profile): an arithmetic overflow that release builds wrap silently is a panic there
    c.scenario("total", profile="dbg")
    return c.finish("model_checking", RULE_DEC, TRUST)


def check_C06(c):
    mc_inflate_core(c)
    c.scenario("trailing", extra=["--in", gen_valid_small(c)])
    c.scenario("capi_c06")
    return c.finish("model_checking", RULE_DEC, TRUST)


def check_C07(c):
    mc_inflate_core(c)
    # valid and invalid grammar-generated streams: the invalid ones are compared schedule against schedule
    c.scenario("schedules", extra=["--in", c.generate("MC_GenAcc", "MC_GenAcc_sim.cfg", 500 if thorough(c) else 140, 300)])
    return c.finish("model_checking", RULE_DEC, TRUST)


def check_C08(c):
    mc_inflate_core(c)
    c.model_check("MC_InflateHelpers", "MC_InflateHelpers.cfg", workers=2)
    c.scenario("window", extra=["--in", gen_valid_small(c)])
    return c.finish("model_checking", RULE_DEC, TRUST)


def check_C13(c):
    for k in ("valid", "trailing", "truncated", "corrupt"):
        c.model_check("MC_InflateStream", "MC_InflateStream_%s.cfg" % k, workers=4)
    c.model_check("MC_InflateStream", "MC_InflateStream_live.cfg", workers=4)
    c.scenario("inflate_protocol", extra=["--in", gen_valid_small(c)])
    return c.finish("model_checking", RULE_DEC, TRUST)


RULE_COMP = ("one case = one (input, configuration, call schedule) driven through the real compressor; every call is "
             "judged by DeflateContract, the concatenated output is parsed by the TLA+ acceptor against the input; "
             "non-trivial = every case")


def mc_deflate_core(c):
    for z in ("TRUE", "FALSE"):
        c.model_check("MC_DeflateCore", "MC_DeflateCore_%s%s.cfg" % (z, "_big" if thorough(c) else ""), workers=6)


def mc_lzbuf(c):
    """the LZ code buffer (DeflateLZBuf.tla): the margin keeps every write inside, a step writes at most
    WorstStep bytes; the mutated margin must be rejected"""
    c.model_check("MC_DeflateLZBuf", "MC_DeflateLZBuf.cfg", workers=2)
    r = c.model_check("MC_DeflateLZBuf", "MC_DeflateLZBuf_mut.cfg", workers=2, expect_ok=False)
    if not r["violations"]:
        c.tool_error("MC_DeflateLZBuf: the seeded design mutation was not rejected")


def mc_lz(c, variants):
    """the match finder's ring / mirror / look-ahead / history model (DeflateLZ.tla); its StateRules
    are the ones the trace specification evaluates on the real compressor's state (hook)"""
    for v in variants:
        c.model_check("MC_DeflateLZ", "MC_DeflateLZ_%s%s.cfg" % (v, "" if thorough(c) else "_quick"), workers=8 if thorough(c) else 6)


def check_C02(c):
    mc_params(c)
    mc_deflate_core(c)
    mc_lz(c, ("lazy", "rle"))
    mc_lzbuf(c)
    c.scenario("streamcomp")
    return c.finish("model_checking", RULE_COMP, TRUST)


def check_C12(c):
    mc_deflate_core(c)
    mc_lz(c, ("lazy",))
    c.scenario("flushes")
    # flush points reached through the deflate() wrapper (its flush-mode mapping is part of C12)
    c.scenario("deflate_protocol_c12")
    return c.finish("model_checking", RULE_COMP, TRUST)


def check_C14(c):
    mc_deflate_core(c)
    c.model_check("MC_DeflateStream", "MC_DeflateStream.cfg", workers=6)
    c.scenario("deflate_protocol")
    return c.finish("model_checking", RULE_COMP, TRUST)


def check_C15(c):
    c.scenario("bound")
    return c.finish("model_checking",
                    "one case = one (length, content family, level, strategy): mz_compressBound/mz_deflateBound compared with the spec's Bound(n), one-call compression into a destination of exactly that size placed against a guard page; lengths 0..300 exhaustively plus block-size thresholds",
                    TRUST)


def check_C16(c):
    c.model_check("MC_Checksums", "MC_Checksums.cfg", workers=4)
    c.scenario("checksums")
    c.scenario("checksums", features=["simd"])
    c.scenario("adler_stream")
    c.scenario("adler_stream", features=["simd"])
    # the adler field of C streams (inflate: checksum of the output produced so far, also after error returns)
    c.scenario("capi_c16")
    # the decoder's running checksum at block-boundary stops (pair rule in the snapshot scenario)
    c.scenario("snapshots_c16")
    return c.finish("model_checking",
                    "one case = one buffer (length family x content) with every split point (short) or random splits; each call (start value, data, result) is recomputed by TLC from the Adler-32 / CRC-32 definitions in spec/Checksums.tla; scalar and simd builds",
                    TRUST)


def check_C17(c):
    c.model_check("MC_CApiStream", "MC_CApiStream.cfg", workers=2)
    c.scenario("capi")
    return c.finish("model_checking",
                    "one case = one C stream (deflate or inflate) driven through the extern \"C\" entry points with guard-paged buffers and a random (avail_in, avail_out, flush) schedule, each call mirrored on a Rust twin; plus parameter/misuse table and one-shot helpers",
                    TRUST + ["out-of-range memory access is observed by PROT_NONE guard pages (a fault kills the harness, which the orchestrator reports as a violation), not derived from the spec"])


def check_C18(c):
    c.scenario("reset")
    return c.finish("model_checking",
                    "one case = one (history, reset variant, follow-up) triple: the reset object and a fresh object are driven with the same call sequence and every call's result and bytes must be equal; also two fresh objects (determinism)",
                    TRUST)


def check_C19(c):
    c.scenario("snapshots")
    return c.finish("model_checking",
                    "one case = one stream with forks (clone, serde_json, rmp-serde) at inter-call points and a rebuild from the block-boundary record at every boundary; all forks must finish identically; boundary records are checked against the acceptor's block list",
                    TRUST)
