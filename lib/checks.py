"""Per-property check plans (what is model-checked, which harness scenarios are validated)."""

TRUST = [
    "TLC / SANY 1.8.0 and the CommunityModules (Json, IOUtils, SequencesExt) are correct",
    "spec/Rfc1951.tla is a faithful transcription of RFC 1951/1950 (zlib-compatible choices listed in its header; cross-checked against Python zlib output during development and by the DeflateGen consistency model)",
    "the harness (/verif/harness) logs arguments and results of every call truthfully (binding self-test: bin/selftest corrupts logged fields and requires rejection)",
    "exhaustiveness is relative to the scaled-down constants of the models; real constants are reached by validated executions, which are a seed-varied sample",
]


def thorough(c):
    return c.tier == "thorough"


def mc_params(c):
    c.model_check("MC_DeflateParams", "MC_DeflateParams_full.cfg" if thorough(c) else "MC_DeflateParams.cfg",
                  workers=8 if thorough(c) else 4)


def check_C01(c):
    mc_params(c)
    c.scenario("oneshot")
    return c.finish("model_checking",
                    "one case = one (input, level, format) one-shot compression; the output is parsed token by token by the TLA+ RFC 1951/1950 acceptor against the input and the crate's own decoder result is compared; non-trivial = every case (distinct by construction: level x family x size)",
                    TRUST)


def check_C09(c):
    mc_params(c)
    c.scenario("configs_c09")
    return c.finish("model_checking",
                    "one case = one compressor configuration (format, level, strategy, window bits) streamed through compress(); zlib header/trailer judged by the acceptor and the DeflateParams header model",
                    TRUST)


def check_C10(c):
    mc_params(c)
    c.scenario("configs_c10")
    return c.finish("model_checking",
                    "one case = one compressor configuration on data built to tempt the forbidden token kinds; acceptor token statistics are checked against what DeflateParams says the requested level/strategy requires",
                    TRUST)


def check_C11(c):
    mc_params(c)
    c.scenario("configs_c11")
    return c.finish("model_checking",
                    "one case = one (level, strategy, window bits) configuration on data whose only long-range redundancy lies just beyond the window the header may declare; the acceptor's maximum distance is compared with the declared window",
                    TRUST)


RULE_DEC = ("one case = one stream (valid, mutated, truncated or random) driven through the real decoder along "
            "many call schedules; every call is judged by InflateContract against the verdict of the TLA+ acceptor; "
            "non-trivial = every case (distinct stream x schedule set)")


def check_C03(c):
    c.scenario("entrypoints")
    return c.finish("model_checking", RULE_DEC, TRUST)


def check_C04(c):
    c.scenario("invalid")
    return c.finish("model_checking", RULE_DEC, TRUST)


def check_C05(c):
    c.scenario("total")
    if thorough(c):
        c.scenario("total", profile="dbg")
    return c.finish("model_checking", RULE_DEC, TRUST)


def check_C06(c):
    c.scenario("trailing")
    return c.finish("model_checking", RULE_DEC, TRUST)


def check_C07(c):
    c.scenario("schedules")
    return c.finish("model_checking", RULE_DEC, TRUST)


def check_C08(c):
    c.scenario("window")
    return c.finish("model_checking", RULE_DEC, TRUST)


def check_C13(c):
    c.scenario("inflate_protocol")
    return c.finish("model_checking", RULE_DEC, TRUST)
