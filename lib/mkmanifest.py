#!/usr/bin/env python3
"""Regenerates MANIFEST.json from the table below (keeps it valid and uniform)."""
import json, os, subprocess
ROOT = os.path.dirname(os.path.dirname(os.path.abspath(__file__)))

ENG = "tla-trace"
T = "TLC: "
CHECKS = {
 "C01": ("model_checking", T+"exhaustive MC of DeflateParams (level clamp), DeflateHelpers (compress_to_vec loop: no panic, whole stream, termination) and DeflateLZ + trace validation of every one-shot call against the RFC 1951/1950 acceptor spec", "3/C01"),
 "C02": ("model_checking", T+"trace validation of every compress()/compress_to_output() call against DeflateContract, of the match finder's state (hook) against the DeflateLZ rules, and of the concatenated output against the acceptor; MC of DeflateParams, DeflateCore, DeflateLZ", "3/C02"),
 "C03": ("model_checking", T+"MC of generator/acceptor agreement (DeflateGen vs Rfc1951), TLC-generated streams (incl. wide code-length sets, biased simulations) and crafted wrap-around streams replayed through all decoder entry points; trace validation against InflateContract with the acceptor's verdict on each stream", "3/C03"),
 "C04": ("model_checking", T+"acceptor (Produce mode) judges mutated streams, InflateContract forbids Done on rejected/starved streams and rejection of proper prefixes", "3/C04"),
 "C05": ("model_checking", T+"trace validation of random call histories (all flag sets, geometries, positions) against the total-function rules of InflateContract", "3/C05"),
 "C06": ("model_checking", T+"acceptor's exact encoded length vs summed consumed counts at Done, trailing bytes, all entry points", "3/C06"),
 "C07": ("model_checking", T+"MC of InflateCore and InflateStates; schedule-equivalence rules of the trace spec over every cut point / budget schedule (incl. a caller that never announces more input), valid and invalid (mutated and grammar-generated) streams", "3/C07"),
 "C08": ("model_checking", T+"geometry sweep validated against the region/status rules of InflateContract; vector-helper limit rules", "3/C08"),
 "C09": ("model_checking", T+"exhaustive MC of the header function over all configurations + acceptor-validated header/trailer of real compressor output", "3/C09"),
 "C10": ("model_checking", T+"exhaustive MC of routing/capability per configuration + acceptor token statistics of real output judged against DeflateParams requirements; MC of DeflateHuff (code construction, length limiter, code-length packer) whose rules TLC evaluates on the real optimize_table / start_dynamic_block for every small count vector (hook)", "3/C10"),
 "C11": ("model_checking", T+"exhaustive MC of declared window vs route distance capability + acceptor-measured maximum distance vs declared window", "3/C11"),
 "C12": ("model_checking", T+"MC of DeflateCore/DeflateLZ (flush points, full flush cuts history); acceptor in prefix mode at every qualifying flush return of compress() and deflate(); full-flush cut tracking in the acceptor; scripted call sequences around block cuts and Full flushes", "3/C12"),
 "C13": ("model_checking", T+"trace validation of random and canonical inflate() call sequences against the InflateStream contract rules", "3/C13"),
 "C14": ("model_checking", T+"trace validation of random deflate() call sequences against the DeflateStream contract rules; output parsed by the acceptor", "3/C14"),
 "C15": ("model_checking", T+"Bound(n) transcribed in spec/CApi.tla compared with the C functions; one-call compression into bound-sized guard-paged destinations validated by the trace spec", "3/C15"),
 "C16": ("model_checking", T+"every checksum call recomputed by TLC from the definitions in spec/Checksums.tla (all splits, modulus edges; scalar and simd builds); running checksums of compressor, decoder (incl. block-boundary stops) and C stream field checked against the data in the traces", "3/C16"),
 "C17": ("model_checking", T+"trace validation of C calls against the CApi accounting/equality rules with a Rust twin; guard pages observe out-of-range access", "3/C17"),
 "C18": ("model_checking", T+"pair rules of the trace spec: reset object vs fresh object vs second fresh object under identical call sequences", "3/C18"),
 "C19": ("model_checking", T+"pair rules for clone/serde/boundary forks; boundary records checked against the acceptor's block list", "3/C19"),
}
GEN = "Real executions recorded by the harness are validated line by line by TLC against spec/trace/Trace.tla (contract rules + RFC acceptor); the implementation-shaped models that TLC checks exhaustively at small constants are listed in the evidence file. Right level: the property quantifies over schedules/inputs that only a specification can enumerate and only trace validation binds to the code."
TEXT = {k: GEN for k in CHECKS}
TEXT.update({
 "C01": "Every explored (input, level, format) is compressed by the real one-shot helpers; the bytes are parsed token by token by the RFC 1951/1950 acceptor written in TLA+ (independent of the crate) and must decode to the input and end exactly at the last byte; the crate's own decoder must return the input. DeflateParams is model-checked over all levels/strategies/window bits (level clamp).",
 "C09": "The header function is a finite function and is checked for all configurations by TLC (RFC 1950 validity); real output of every configuration is parsed by the Zlib acceptor, which verifies header fields and the big-endian Adler-32 trailer against the input.",
 "C10": "DeflateParams (routing and route capabilities, transcribed from the code) is checked by TLC for all configurations; the real compressor is run for every configuration on data built to tempt forbidden tokens and the acceptor's token statistics are judged against the requirements derived in the spec.",
 "C11": "Model: for all configurations the route's maximum distance is bounded by the declared window (TLC, exhaustive). Code: every configuration with window bits 8..15 is run on data whose redundancy lies just beyond the declared window; the acceptor's measured maximum distance must not exceed the declared window.",
})
NOTE = "Trusted: TLC/SANY + CommunityModules; the RFC transcription in spec/Rfc1951.tla; the harness's logging (self-tested by field corruption); model exhaustiveness is relative to scaled constants, real constants are covered by validated executions (sampled, seed-varied)."

def main():
    commits = []
    try:
        out = subprocess.run(["git", "-C", "/repo", "log", "--format=%h %s"], stdout=subprocess.PIPE).stdout.decode()
        commits = [l.split()[0] for l in out.splitlines() if l.split(" ", 1)[1].startswith("verif-hook:")]
    except Exception:
        pass
    m = {
     "version": 1,
     "setup_cmd": "bin/setup",
     "hooks": {
      "guard": "--cfg miniz_oxide_verif",
      "enable": "harness/.cargo/config.toml sets rustflags = [\"--cfg\", \"miniz_oxide_verif\"] for the harness workspace, which builds /repo/miniz_oxide and /repo (C shim) as path dependencies",
      "baseline_off_cmd": "cd /repo && cargo test --workspace --no-fail-fast --offline",
      "source_commits": commits,
      "add_only": True
     },
     "engines": [
      {"name": ENG, "path": "lib/orchestrate.py", "serves_properties": sorted(CHECKS),
       "kind_free_text": "TLA+ specifications (spec/) checked by TLC: exhaustive model checking of implementation-shaped models at small constants, and trace validation of real executions recorded by the Rust harness (harness/) against spec/trace/Trace.tla"}
     ],
     "checks": [],
     "not_applicable": [
      {"property_id": "C20", "reason": "property of program text and compiler verdicts over a feature matrix (no unsafe, no_std builds, auto traits); there is no state/transition behaviour for a TLA+ specification to describe or a trace to validate (DESIGN.md section 7)"}
     ],
     "notes": "Exit codes: 0 held, 1 violation (VIOLATION line + replay), 2 tool error. Genuine defects found and fixed are listed in KNOWN_FINDINGS.json."
    }
    allp = [json.loads(l)["id"] for l in open(os.path.join(ROOT, "properties.jsonl"))]
    for pid in allp:
        if pid in CHECKS:
            cat, tech, ref = CHECKS[pid]
            m["checks"].append({
             "property_id": pid,
             "quick_cmd": "bin/check %s --tier quick" % pid,
             "thorough_cmd": "bin/check %s --tier thorough" % pid,
             "evidence_file": "evidence/%s.json" % pid,
             "replay_cmd_template": "bin/check %s --replay {path}" % pid,
             "engine": ENG,
             "level_claimed": {"category": cat, "text": TEXT[pid], "design_ref": "DESIGN.md section " + ref},
             "level_note": NOTE,
             "technique": tech,
            })
        elif pid != "C20":
            m["not_applicable"].append({"property_id": pid, "reason": "check not built yet (in progress; see DESIGN.md section 3 for the planned model and trace spec)"})
    json.dump(m, open(os.path.join(ROOT, "MANIFEST.json"), "w"), indent=1)

if __name__ == "__main__":
    main()
