#!/usr/bin/env python3
"""Regenerates MANIFEST.json from the table below (keeps it valid and uniform)."""
import json, os, subprocess
ROOT = os.path.dirname(os.path.dirname(os.path.abspath(__file__)))

ENG = "tla-trace"
CHECKS = {
 "C01": ("model_checking", "TLC: exhaustive MC of DeflateParams (level clamp) + trace validation of every one-shot call against the RFC 1951/1950 acceptor spec and DeflateContract", "3/C01"),
 "C09": ("model_checking", "TLC: exhaustive MC of the header function over all configurations + acceptor-validated header/trailer of real compressor output", "3/C09"),
 "C10": ("model_checking", "TLC: exhaustive MC of routing/capability per configuration + token-level statistics of real output from the TLA+ acceptor judged against DeflateParams requirements", "3/C10"),
 "C11": ("model_checking", "TLC: exhaustive MC of declared window vs route distance capability + acceptor-measured maximum distance of real output vs declared window", "3/C11"),
}
TEXT = {
 "C01": "Every explored (input, level, format) is compressed by the real one-shot helpers; the bytes are parsed token by token by the RFC 1951/1950 acceptor written in TLA+ (independent of the crate) and must decode to the input and end exactly at the last byte; the crate's own decoder must return the input. DeflateParams is model-checked over all levels/strategies/window bits (level clamp). Right level: losslessness is a data-path property that only validated executions bind to the code; the model gives exhaustiveness over the configuration space.",
 "C09": "The header function is a finite function and is checked for all configurations by TLC (RFC 1950 validity); real output of every configuration is parsed by the Zlib acceptor, which verifies header fields and the big-endian Adler-32 trailer against the input.",
 "C10": "DeflateParams (routing and route capabilities, transcribed from the code) is checked by TLC for all configurations; the real compressor is run for every configuration on data built to tempt forbidden tokens and the acceptor's token statistics are judged against the requirements derived in the spec.",
 "C11": "Model: for all configurations the route's maximum distance is bounded by the declared window (TLC, exhaustive). Code: every configuration with window bits 8..15 is run on data whose redundancy lies just beyond the declared window; the acceptor's measured maximum distance must not exceed the declared window.",
}
NOTE = "Trusted: TLC/SANY + CommunityModules; the RFC transcription in spec/Rfc1951.tla; the harness's logging (self-tested by field corruption); model exhaustiveness is relative to scaled constants, real constants are covered by validated executions (sampled, seed-varied)."

def main():
    commits = []
    try:
        out = subprocess.run(["git", "-C", "/repo", "log", "--format=%h %s"], stdout=subprocess.PIPE).stdout.decode()
        commits = [l.split()[0] for l in out.splitlines() if l.split(" ", 1)[1].startswith("verif-hook:")]
    except Exception:
        pass
    m = {
     "version": 1,
     "setup_cmd": "bin/setup",
     "hooks": {
      "guard": "--cfg miniz_oxide_verif",
      "enable": "harness/.cargo/config.toml sets rustflags = [\"--cfg\", \"miniz_oxide_verif\"] for the harness workspace, which builds /repo/miniz_oxide and /repo (C shim) as path dependencies",
      "baseline_off_cmd": "cd /repo && cargo test --workspace --no-fail-fast --offline",
      "source_commits": commits,
      "add_only": True
     },
     "engines": [
      {"name": ENG, "path": "lib/orchestrate.py", "serves_properties": sorted(CHECKS),
       "kind_free_text": "TLA+ specifications (spec/) checked by TLC: exhaustive model checking of implementation-shaped models at small constants, and trace validation of real executions recorded by the Rust harness (harness/) against spec/trace/Trace.tla"}
     ],
     "checks": [],
     "not_applicable": [
      {"property_id": "C20", "reason": "property of program text and compiler verdicts over a feature matrix (no unsafe, no_std builds, auto traits); there is no state/transition behaviour for a TLA+ specification to describe or a trace to validate (DESIGN.md section 7)"}
     ],
     "notes": "Exit codes: 0 held, 1 violation (VIOLATION line + replay), 2 tool error. Genuine defects found and fixed are listed in KNOWN_FINDINGS.json."
    }
    allp = [json.loads(l)["id"] for l in open(os.path.join(ROOT, "properties.jsonl"))]
    for pid in allp:
        if pid in CHECKS:
            cat, tech, ref = CHECKS[pid]
            m["checks"].append({
             "property_id": pid,
             "quick_cmd": "bin/check %s --tier quick" % pid,
             "thorough_cmd": "bin/check %s --tier thorough" % pid,
             "evidence_file": "evidence/%s.json" % pid,
             "replay_cmd_template": "bin/check %s --replay {path}" % pid,
             "engine": ENG,
             "level_claimed": {"category": cat, "text": TEXT[pid], "design_ref": "DESIGN.md section " + ref},
             "level_note": NOTE,
             "technique": tech,
            })
        elif pid != "C20":
            m["not_applicable"].append({"property_id": pid, "reason": "check not built yet (in progress; see DESIGN.md section 3 for the planned model and trace spec)"})
    json.dump(m, open(os.path.join(ROOT, "MANIFEST.json"), "w"), indent=1)

if __name__ == "__main__":
    main()
