#!/usr/bin/env python3
"""Merges hand-written 'needs' descriptions into seeded/<name>/meta.json and writes seeded/SUMMARY.md."""
import json, os, glob
ROOT = os.path.dirname(os.path.dirname(os.path.abspath(__file__)))
NEEDS = {
 "C01a": ("C01", "lazy-parsing level (>= 4); a mid-stream block cut that lands on a re-deferred lazy match while compress_to_vec's growing output vector is too small for the block (poorly compressible input); saved_lit/saved_match_* not written back on the early return"),
 "C01b": ("C01", "level 1, incompressible input whose final stored-fallback block is exactly 32768 bytes (input of 32768 or 91018 bytes); the wrap test start <= end emits the header without data"),
 "C02a": ("C02", "level >= 4, input spanning more than one LZ block, output buffer smaller than the block so the call is suspended inside compress_normal with a deferred match pending that differs from the one at call entry"),
 "C02b": ("C02", "an internal block flush landing on the last input byte of a call that also requests a flush, with an output buffer smaller than the block (level 0: the flushing call offers exactly 31745 bytes)"),
 "C03a": ("C03", "a valid match with distance 32768 decoded in the fast loop (>= 14 input bytes, >= 259 output bytes) into a 32 KiB ring (low-level ring mode or the streaming wrapper)"),
 "C03b": ("C03", "12-15 bit Huffman codes that straddle the boundary between two input chunks (slow refill path)"),
 "C04a": ("C04", "a Huffman block followed by a dynamic block that declares no distance codes but contains a length symbol: decoded with the previous block's stale distance table instead of being rejected"),
 "C04b": ("C04", "input chunk boundary between a length/distance/repeat symbol and its extra bits (num_extra not saved)"),
 "C05a": ("C05", "exactly 258 bytes of output space at the top of the fast loop, >= 14 input bytes, next symbols a literal followed by a length-258 match"),
 "C05b": ("C05", "a data error met inside the fast loop (>= 259 output bytes, >= 14 input bytes), then another call on the same decoder without init()"),
 "C06a": ("C06", "HasMoreOutput inside the last symbols of a stream, only 1-3 unrelated trailing bytes in the input slice, then resume: trailing bytes reported as consumed"),
 "C06b": ("C06", "mz_inflate(MZ_NO_FLUSH), then mz_inflate(MZ_FINISH) with too little output (MZ_BUF_ERROR), then continue: total_in/total_out not updated on the error return"),
 "C07a": ("C07", "large input chunk, output suspended by HasMoreOutput in the middle of a match, then a stored block, then another block (look-ahead bytes left in the saved bit buffer)"),
 "C07b": ("C07", "zlib stream, input cut between the end of the deflate data and the end of the trailer, output buffer of exactly the decoded size"),
 "C08a": ("C08", "flat buffer, a match with distance >= 4 and length % 4 != 0 that is cut by the budget or is the last thing written, with spare room in the slice (up to 3 bytes past the budget are clobbered)"),
 "C08b": ("C08", "has-more flag, input ending mid-symbol with >= 8 bits buffered: NeedsMoreInput with consumed < offered; 1-byte feeding never progresses (inflate() spins)"),
 "C08c": ("C08", "exactly 258 bytes of room at a fast-loop check, >= 14 input bytes, literal followed by a length-258 match (writes one byte past the budget)"),
 "C09a": ("C09", "wrong zlib trailer, input chunked so that the call reaching Done writes no output (last chunk holds only trailer bytes) or empty payload: mismatch check skipped"),
 "C09b": ("C09", "with_params(Zlib, .., window_bits 16..23, 32..39, ...): header with window field > 7"),
 "C10a": ("C10", "RLE strategy (also window_bits < 12), a run of >= 3 equal bytes starting exactly at an input offset that is a multiple of 32768, with a different byte just before it"),
 "C10b": ("C10", "lazy level, small caller output buffers, an internal block flush coinciding with a deferred lazy match (one input byte silently dropped)"),
 "C11a": ("C11", "with_params(Zlib, level >= 1, Filtered, window_bits 12..14) on input with a repeat of 6+ bytes beyond the declared window but within 32 KiB"),
 "C11b": ("C11", "with_params(window_bits 12..14), compress a first stream, reset(), second stream with far repeats (cached distance limit lost by reset)"),
 "C12a": ("C12", "a Full flush followed by more input whose first bytes repeat data from before the flush (dict.size not cleared)"),
 "C12b": ("C12", "RLE strategy, a Full flush, then a run that continues across the flush point"),
 "C13a": ("C13", "a Finish call that is not the first call, with output space exactly equal to the remaining plaintext: Err(Buf) instead of StreamEnd, forever"),
 "C13b": ("C13", "a length/distance/repeat code with extra bits and an input chunk boundary exactly between the code and its extra bits (1-2 byte chunks)"),
 "C14a": ("C14", "stream end reached with 1-5 byte output buffers (tail delivered by later calls), then a None/Sync/Full call: Err(Param) instead of Err(Buf)"),
 "C14b": ("C14", "a Finish call that cannot complete (1-5 byte output) followed by None/Sync/Full: accepted and reported as stream end"),
 "C15a": ("C15", "strategy Fixed, all input bytes >= 144, n about 5200..32768, one mz_deflate(MZ_FINISH) into a bound-sized buffer (first block can never fall back to stored)"),
 "C15b": ("C15", "mz_deflateBound uses min instead of max: level 1 on incompressible input of about 200 KB or more"),
 "C16a": ("C16", "a single large input slice (> 32-64 KiB) with an output buffer too small for a block: compress returns after consuming a prefix and the tail is hashed twice"),
 "C16b": ("C16", "mz_adler32 / mz_crc32 with a zero-length chunk and a non-null pointer while the running value is not the initial one"),
 "C17a": ("C17", "mz_inflate returning an error after making progress (MZ_FINISH with a short buffer, or a stream corrupted mid-way): pointers advance, totals do not"),
 "C17b": ("C17", "tdefl_compress_mem_to_mem with out_buf_len exactly equal to the compressed size"),
 "C18a": ("C18", "compressor fed data with flush None and abandoned before any flush, then reset(): stale Huffman symbol counts in the next stream's first block"),
 "C18b": ("C18", "reset (MinReset/ZeroReset/FullReset/init()) after a stream cut mid-way with bits still pending: bit_buf not cleared"),
 "C19a": ("C19", "stop-at-block-boundary with a Huffman block whose end-of-block code is decoded outside the fast loop (< 14 input bytes or < 259 output bytes left in that call)"),
 "C19b": ("C19", "serde snapshot taken while suspended on NeedsMoreInput inside the code-length section of a dynamic block header (len_codes skipped)"),
 "C01c": ("C01", "four adjacent literals with 15-bit codes in one emission group of compress_lz_codes plus >= 4 bits left over from the previous group (literal loop 0..3 -> 0..4 overflows the 64-bit accumulator): needs a Fibonacci-like byte histogram with the once-only bytes next to each other"),
 "C02c": ("C02", "dictionary mirror kept one byte short: RLE matcher standing on ring offset 32767 with a full look-ahead whose run ends exactly at mirror index 256 while the stale mirror byte equals the run byte"),
 "C02d": ("C02", "Full flush whose history reset happens before flush_block: the block then cannot fall back to a stored block (needs an expanding block at a Full flush)"),
 "C02e": ("C02", "buffer output, an earlier block already sent through the local buffer, then a Sync/Full/Partial flush with no input consumed since the last block (flush_ofs not reset): stale bytes emitted instead of the marker"),
 "C03c": ("C03", "stored block whose first payload bytes are still in the bit buffer (look-ahead after a Huffman block): only one of them is taken from the bit buffer"),
 "C03d": ("C03", "a literal/length code with about 270 of 286 symbols longer than 10 bits (overflow tree of the decoder capped at 512 entries)"),
 "C03e": ("C03", "ring mode (32 KiB ring or the inflate() wrapper), ring already wrapped, a length-3 match whose source starts on ring index 32766 or 32767"),
 "C03f": ("C03", "the last byte that fits the caller's exact-size buffer / limit is the last payload byte of a stored block (RawMemcpy1 tests 'region full' before 'block finished')"),
 "C04c": ("C04", "dynamic block whose last code-length repeat runs past HLIT+HDIST (clamped instead of rejected)"),
 "C04d": ("C04", "over-subscribed code made of one-bit codes only (three codes of length 1)"),
 "C05c": ("C05", "first inflate() call is Finish with too little output (Err(Buf)), then another call on the same state without reset: the failed stream comes back to life"),
 "C05d": ("C05", "ring mode, match distance exactly the ring size, decoded in the fast loop, length other than 3: panic in apply_match"),
 "C06c": ("C06", "zlib stream, chunk boundary after 1-3 of the 4 trailer bytes and >= 4 bytes in the next chunk: consumed count drifts by the part already read"),
 "C06d": ("C06", "zlib stream followed by unrelated bytes in the same slice, 5-7 whole bytes of look-ahead in the bit buffer at the end of the last block: the bytes beyond the trailer are reported consumed"),
 "C07c": ("C07", "codes of 12+ bits and an input slice that ends inside such a code with exactly code_len - 1 bits available (slow refill path reads a bit it does not have)"),
 "C07d": ("C07", "inflate() wrapper: decoder reaches Done while the caller's output is too small and the tail needs two or more further grants: StreamEnd reported while data is still held back"),
 "C08d": ("C08", "decompress_with_limit with out_pos + out_max < out.len(): a match decoded on the slow path that crosses the end of the budget is copied in full"),
 "C09c": ("C09", "ring buffer of >= 64 KiB without the non-wrapping flag and a zlib header with CINFO 8..15 (window limit replaced by the buffer size)"),
 "C09d": ("C09", "compressor configured with DataFormat::ZLibIgnoreChecksum (with_format_and_level / set_format_and_level): raw stream, no header, no trailer"),
 "C10c": ("C10", "a block whose optimal Huffman tree is deeper than 15 levels (Fibonacci-like counts): enforce_max_code_size sums an empty range, over-long codes keep size 0"),
 "C10d": ("C10", "compressor created with zero probes (level 0 / HuffmanOnly / new(0)) then switched to level >= 2 by a setter: dict.max_probes never updated, no matches found"),
 "C11c": ("C11", "zlib compressor started at level 0 / HuffmanOnly (header declares a 256-byte window), header flushed, level raised mid-stream, later input repeats further back than 256 bytes"),
 "C11d": ("C11", "level 1, window_bits 12..14, a mid-stream flush that ends a fast-path chunk with 1-3 trailing literals, next call starts with data that also occurs window+1..window+3 back"),
 "C12c": ("C12", "a Sync/Full/Partial call whose last input byte triggers an internal block cut into a too-small output buffer, a draining call, then the same flush again with no input: skipped as 'repeated flush'"),
 "C12d": ("C12", "Sync flush through deflate() when the pending block ends on a byte boundary (stored block, or 1 in 8 by chance): mapped to SyncOpt, marker omitted"),
 "C13c": ("C13", "first inflate() call is Finish with an output buffer smaller than the plaintext (Err(Buf)), caller retries with more room, rest of the stream refers back to bytes delivered by call 1"),
 "C13d": ("C13", "raw stream > 32 KiB whose output crosses the window boundary mid-match with all input consumed, then an empty-input call with None/Sync: Err(Buf) forever"),
 "C14c": ("C14", "an earlier non-Finish call left output parked in the compressor (flush into a 1-12 byte buffer), then Finish with no new input and plenty of room returns Ok without finishing"),
 "C15c": ("C15", "level 1, multi-block input with shifting statistics (>= 1 MB of bytes >= 32, then random bytes < 32): stale symbol counters make later blocks expand beyond the bound"),
 "C15d": ("C15", "strategy Fixed, level >= 2, incompressible bytes >= 144, n > 32768: blocks cut at 32 KiB have left the window, stored fallback dead"),
 "C16c": ("C16", "compressor whose previous flags were raw deflate, switched to zlib by exactly one set_format_and_level call: running Adler-32 never computed"),
 "C16d": ("C16", "mz_inflate returning MZ_BUF_ERROR after writing bytes (MZ_FINISH on a non-first call with too little output): stream.adler not refreshed"),
 "C17c": ("C17", "tinfl_decompress_mem_to_heap with output > 128 bytes (growth loop runs twice) and a declared input length shorter than the stream / ending at a guard page: reads past the declared input"),
 "C17d": ("C17", "a refused misuse call (other kind, custom allocator) in the middle of a stream, then another legitimate call: the stream state was dropped by the refusal"),
 "C18c": ("C18", "previous stream ended with Finish, then reset(), then a first call with a flush other than Finish: BadParam"),
 "C18d": ("C18", "previous inflate stream abandoned with decoded bytes still undelivered, reset_as(MinReset), first call not Finish: stale plaintext of the previous stream is returned"),
 "C19c": ("C19", "stop-at-block-boundary on a stream with an empty non-final stored block (sync marker): no stop reported for it"),
 "C19d": ("C19", "InflateState clone taken shortly after the 32 KiB window wrapped, then a match reaching back past the wrap point (hand-written Clone drops the previous lap)"),
 "C01e": ("C01", "compress_normal: history clamp off by one (cap 32768 - 257 instead of window - look-ahead): the oldest history byte shares a ring slot with the newest look-ahead byte; needs an occurrence exactly 32511 bytes back whose first byte differs only in bits the hash ignores"),
 "C01f": ("C01", "compress_fast look-ahead refill that wraps the ring copies the wrong source bytes; in a one-shot call only after compress_to_vec's grow-and-retry loop interrupted a chunk (poorly compressible input of 100-127 KB)"),
 "C02f": ("C02", "zlib, buffer output, a call suspended at an internal block cut (consumed < offered): the re-offered tail is hashed twice into the Adler-32"),
 "C02g": ("C02", "level >= 4, > 64 KiB of input, a trigram whose hash bucket was last written exactly 65536 positions earlier (u16 alias, distance 0) while a lazy match is pending: dist == 0 guard removed"),
 "C03g": ("C03", "fast loop: refill before the distance extra bits made 32-bit only; needs 30-32 bits left after the length code and length extra + 15-bit distance code + 13 extra bits"),
 "C03h": ("C03", "one decoder, two dynamic blocks that both declare distance codes of 11+ bits with different shapes (distance overflow tree not cleared between blocks)"),
 "C04e": ("C04", "dynamic header with HLIT = 30 (287 lengths) or HDIST = 30 and otherwise complete valid tables (limit check loosened to < 288 / < 32)"),
 "C04f": ("C04", "fixed block containing symbol 286/287 decoded outside the fast loop (short stream / small chunks): run as a 512-byte match"),
 "C05e": ("C05", "flat buffer, a call ending with HasMoreOutput inside a match, next call with out_pos below the saved distance: guard dropped in WriteLenBytesToEnd, panic in transfer()"),
 "C05f": ("C05", "fixed block with a length followed by distance symbol 30 (check off by one): index out of bounds"),
 "C06e": ("C06", "end of stream reached by a call without the has-more-input flag (Finish / raw decompress) with unrelated bytes behind it in the same slice: look-ahead not handed back"),
 "C06f": ("C06", "final block ending exactly on a byte boundary (1 stream in 8, or a tiny final stored block) with unrelated bytes following: rewind skipped when nothing needs padding"),
 "C07e": ("C07", "input cut such that the first code-length symbol completed after resuming is 16 (repeat previous) with a non-zero length to repeat: previous length kept in a local"),
 "C07f": ("C07", "invalid stream failing with >= 4 input bytes left in the call: look-ahead bytes not handed back on Failed, consumed count depends on chunking"),
 "C08e": ("C08", "decompress_to_vec_with_limit: data compressing better than 2:1, limit not of the form 2 * input * 2^k, plaintext longer than the limit: vector grown past the limit through reserve()"),
 "C08f": ("C08", "decompress_with_limit with out_pos > 0 and a finite budget: budget read as an absolute end offset"),
 "C09e": ("C09", "zlib header with FDICT set and otherwise valid (78 20, 78 f9, 08 3c): combined-mask rewrite drops the preset-dictionary rule"),
 "C09f": ("C09", "decompress_slice_iter_to_slice with two or more slices, stream completing in a later slice, bad or missing trailer: zlib flag passed for the first slice only"),
 "C10e": ("C10", "HuffmanOnly (probe budget 1): budget tested before the decrement, one round of probes is made, matches appear in a Huffman-only stream"),
 "C10f": ("C10", "compress_fast: history clamp applied before the look-ahead refill (no-op): a hash entry 28672..32768 bytes back is accepted although its ring slot now holds newer data"),
 "C11e": ("C11", "with_params(Zlib, .., window_bits 8..11) then set_format_and_level(ZLibIgnoreChecksum, level >= 1) before any data: max_match_dist() returns 32768 for windows below 12"),
 "C11f": ("C11", "with_params(.., window_bits = 8): bumped to 9 'like zlib', header declares 512 bytes for a requested 256-byte window"),
 "C12e": ("C12", "data closed by a Sync/Partial/NoSync flush, then directly a Full flush with no new input, then input repeating pre-flush data: history reset skipped for an empty block"),
 "C12f": ("C12", "Full flush whose output does not fit, collected by a following call, then input repeating pre-flush data: history reset only on the Ok(0) arm"),
 "C13e": ("C13", "a None/Sync call with empty input while the decoder waits for input, then a call that supplies input: has-more flag not set for empty chunks, FailedCannotMakeProgress latched"),
 "C13f": ("C13", "corrupt stream detected while output is still pending in the window (small output buffer), caller calls again: sticky-failure gates moved below the pending-delivery return"),
 "C14e": ("C14", "stream driven to StreamEnd, then Finish with an empty output slice: Ok(StreamEnd) instead of Err(Buf)"),
 "C14f": ("C14", "Finish that cannot complete, a refused non-Finish call, then a second non-Finish call: accepted (BadParam no longer sticky, remembered Finish overwritten)"),
 "C15e": ("C15", "level 1, MZ_FIXED, incompressible bytes >= 144, n in a band around 70-150 KB: dict.size lags after a refactor of the tail-literal loop, first 31 KiB block cannot be stored"),
 "C15f": ("C15", "MZ_FIXED, level >= 2, 9-bit literals with a run of zeros every 15000 bytes, about 1 MB: forced-static disjunct of the block-cut test dropped"),
 "C16e": ("C16", "update_adler32 fast path for chunks < 16 bytes reduces with > instead of >=: a chunk after which 1 + sum of bytes is exactly 65521"),
 "C16f": ("C16", "raw-deflate compressor asked to compute the checksum (mz_deflateInit2 with negative window bits, TDEFL_COMPUTE_ADLER32 without zlib header): running value stays 1"),
 "C17e": ("C17", "multi-call tinfl_decompress with out_buf_next != out_buf_start and a linear buffer with little slack or a ring at a non-zero offset: size of the buffer misread"),
 "C17f": ("C17", "mz_compress / mz_compress2 with a destination between 1 byte and compressed size - 1: MZ_OK with a truncated stream"),
 "C18e": ("C18", "a completed stream, reset(), then a stream with a block that does not compress or level 0: code_buf_dict_pos not reset"),
 "C18f": ("C18", "previous inflate stream > 32 KiB through the window, ZeroReset/FullReset, then a stream with a match reaching before its own start: only dict[..dict_ofs + dict_avail] zeroed"),
 "C19e": ("C19", "serde round trip while suspended inside a stored block with more than 511 payload bytes outstanding: deserialize bound on counter too small"),
 "C19f": ("C19", "rebuild from the block-boundary record after a 32 KiB ring has wrapped, then a match whose distance exceeds the ring write position: new out_wrapped flag not in the record"),
 "C02h": ("C02", "lazy parsing, LZ code buffer position exactly 65532 at the start of a step that writes a deferred literal, a new flag byte and a long match: 'nearly full' margin 4 instead of 8, the 16-bit index wraps onto the first flag byte (1 input in 18000)"),
 "C02i": ("C02", "level 1, buffer output smaller than the block, an internal block cut on one of the last 1-3 bytes of a look-ahead chunk of a flushing call: consumed count lost, data compressed twice"),
 "C03i": ("C03", "dynamic header whose first distance code length is coded with symbol 16 (repeat previous) - rejected as if it were at position 0"),
 "C03j": ("C03", "ring mode, >= 32767 bytes already output, a match with distance exactly 32767 and length >= 4: run-fill shortcut fires when the source is one slot ahead of the destination"),
 "C05g": ("C05", "invalid dynamic block with an incomplete code-length code whose data uses the unassigned bit pattern: repeat tables lost their dummy entry and mask, index out of bounds"),
 "C05h": ("C05", "flat buffer with out_pos strictly greater than out.len(): parameter check moved into the ring-buffer arm, panic instead of BadParam"),
 "C08g": ("C08", "decompress_with_limit with out_pos + out_max < out.len() and a stored block whose payload crosses the end of the budget: copied past the budget"),
 "C08h": ("C08", "to-Vec helpers: raw stream compressing better than 2:1 that ends in a long match, helper buffer size 2 * input * 2^k falling inside that match with every input byte already consumed: Err(HasMoreOutput) although the plaintext fits"),
 "C13g": ("C13", "stream driven to StreamEnd, then inflate() once more with an empty input slice: Err(Buf) instead of a stable StreamEnd"),
 "C13h": ("C13", "a Finish call that is not the first call arriving when the delivered total is an exact multiple of 32768 with nothing pending: direct path taken mid-stream, history lost"),
 "C14g": ("C14", "output parked by a flush into a tiny buffer, a Finish call that only drains, then None/Sync/Full: accepted (the Finish request was not recorded)"),
 "C14h": ("C14", "Finish that cannot complete, then a refused non-Finish call: refusal reports the previous call's consumed/written counts (deflate() then panics on slicing)"),
 "C17g": ("C17", "one tdefl_compressor initialised with a callback, then tdefl_init(d, NULL, NULL, flags): stale callback kept, BAD_PARAM or output through the old callback"),
 "C17h": ("C17", "level 11 exactly: level clamp uses NUM_PROBES.len(), index out of bounds panics across the C boundary"),
}

def main():
    rows = []
    for d in sorted(glob.glob(os.path.join(ROOT, "seeded", "*", "meta.json"))):
        m = json.load(open(d))
        name = m["name"]
        if name in NEEDS:
            m["breaks"] = NEEDS[name][0]
            m["needs"] = NEEDS[name][1]
        m.setdefault("what_was_run", "lib/seed_confirm.sh: scratch worktree: git apply patch.diff; cargo test --workspace --no-fail-fast --offline (suite); demo test with and without the change; then bin/check <props> --tier quick against the patched tree on an isolated snapshot (lib/snap.sh); patch reverted afterwards")
        json.dump(m, open(d, "w"), indent=1)
        caught = [c for c in m.get("checks_run", []) if c.get("rc") == 1]
        missed = [c for c in m.get("checks_run", []) if c.get("rc") == 0]
        rows.append((name, m.get("breaks", ""), m.get("needs", ""), m["confirmed"],
                     "; ".join("%s (%s)" % (c["property"], c["rules"].strip()) for c in caught) or "-",
                     ", ".join(c["property"] for c in missed) or "-", m.get("note", "")))
    with open(os.path.join(ROOT, "seeded", "SUMMARY.md"), "w") as f:
        f.write("# Seeded mutations and which checks catch them\n\n")
        f.write("Each mutation compiles, passes the 66 existing tests, and has a demonstration that fails with it and passes without "
                "(confirmed in a scratch worktree; see meta.json). 'caught by' lists the quick checks that exit 1 with the rules printed; "
                "'not caught by' lists checks that were also run against it and stayed green (usually a neighbouring property's check).\n\n")
        f.write("| mutation | property | needs, to manifest | caught by (rules) | run but not caught by | note |\n|---|---|---|---|---|---|\n")
        for r in rows:
            f.write("| %s | %s | %s | %s | %s | %s |\n" % (r[0], r[1], r[2], r[4], r[5], r[6]))
    print(len(rows), "mutations summarised")

if __name__ == "__main__":
    main()
