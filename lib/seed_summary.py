#!/usr/bin/env python3
"""Merges hand-written 'needs' descriptions into seeded/<name>/meta.json and writes seeded/SUMMARY.md."""
import json, os, glob
ROOT = os.path.dirname(os.path.dirname(os.path.abspath(__file__)))
NEEDS = {
 "C01a": ("C01", "lazy-parsing level (>= 4); a mid-stream block cut that lands on a re-deferred lazy match while compress_to_vec's growing output vector is too small for the block (poorly compressible input); saved_lit/saved_match_* not written back on the early return"),
 "C01b": ("C01", "level 1, incompressible input whose final stored-fallback block is exactly 32768 bytes (input of 32768 or 91018 bytes); the wrap test start <= end emits the header without data"),
 "C02a": ("C02", "level >= 4, input spanning more than one LZ block, output buffer smaller than the block so the call is suspended inside compress_normal with a deferred match pending that differs from the one at call entry"),
 "C02b": ("C02", "an internal block flush landing on the last input byte of a call that also requests a flush, with an output buffer smaller than the block (level 0: the flushing call offers exactly 31745 bytes)"),
 "C03a": ("C03", "a valid match with distance 32768 decoded in the fast loop (>= 14 input bytes, >= 259 output bytes) into a 32 KiB ring (low-level ring mode or the streaming wrapper)"),
 "C03b": ("C03", "12-15 bit Huffman codes that straddle the boundary between two input chunks (slow refill path)"),
 "C04a": ("C04", "a Huffman block followed by a dynamic block that declares no distance codes but contains a length symbol: decoded with the previous block's stale distance table instead of being rejected"),
 "C04b": ("C04", "input chunk boundary between a length/distance/repeat symbol and its extra bits (num_extra not saved)"),
 "C05a": ("C05", "exactly 258 bytes of output space at the top of the fast loop, >= 14 input bytes, next symbols a literal followed by a length-258 match"),
 "C05b": ("C05", "a data error met inside the fast loop (>= 259 output bytes, >= 14 input bytes), then another call on the same decoder without init()"),
 "C06a": ("C06", "HasMoreOutput inside the last symbols of a stream, only 1-3 unrelated trailing bytes in the input slice, then resume: trailing bytes reported as consumed"),
 "C06b": ("C06", "mz_inflate(MZ_NO_FLUSH), then mz_inflate(MZ_FINISH) with too little output (MZ_BUF_ERROR), then continue: total_in/total_out not updated on the error return"),
 "C07a": ("C07", "large input chunk, output suspended by HasMoreOutput in the middle of a match, then a stored block, then another block (look-ahead bytes left in the saved bit buffer)"),
 "C07b": ("C07", "zlib stream, input cut between the end of the deflate data and the end of the trailer, output buffer of exactly the decoded size"),
 "C08a": ("C08", "flat buffer, a match with distance >= 4 and length % 4 != 0 that is cut by the budget or is the last thing written, with spare room in the slice (up to 3 bytes past the budget are clobbered)"),
 "C08b": ("C08", "has-more flag, input ending mid-symbol with >= 8 bits buffered: NeedsMoreInput with consumed < offered; 1-byte feeding never progresses (inflate() spins)"),
 "C08c": ("C08", "exactly 258 bytes of room at a fast-loop check, >= 14 input bytes, literal followed by a length-258 match (writes one byte past the budget)"),
 "C09a": ("C09", "wrong zlib trailer, input chunked so that the call reaching Done writes no output (last chunk holds only trailer bytes) or empty payload: mismatch check skipped"),
 "C09b": ("C09", "with_params(Zlib, .., window_bits 16..23, 32..39, ...): header with window field > 7"),
 "C10a": ("C10", "RLE strategy (also window_bits < 12), a run of >= 3 equal bytes starting exactly at an input offset that is a multiple of 32768, with a different byte just before it"),
 "C10b": ("C10", "lazy level, small caller output buffers, an internal block flush coinciding with a deferred lazy match (one input byte silently dropped)"),
 "C11a": ("C11", "with_params(Zlib, level >= 1, Filtered, window_bits 12..14) on input with a repeat of 6+ bytes beyond the declared window but within 32 KiB"),
 "C11b": ("C11", "with_params(window_bits 12..14), compress a first stream, reset(), second stream with far repeats (cached distance limit lost by reset)"),
 "C12a": ("C12", "a Full flush followed by more input whose first bytes repeat data from before the flush (dict.size not cleared)"),
 "C12b": ("C12", "RLE strategy, a Full flush, then a run that continues across the flush point"),
 "C13a": ("C13", "a Finish call that is not the first call, with output space exactly equal to the remaining plaintext: Err(Buf) instead of StreamEnd, forever"),
 "C13b": ("C13", "a length/distance/repeat code with extra bits and an input chunk boundary exactly between the code and its extra bits (1-2 byte chunks)"),
 "C14a": ("C14", "stream end reached with 1-5 byte output buffers (tail delivered by later calls), then a None/Sync/Full call: Err(Param) instead of Err(Buf)"),
 "C14b": ("C14", "a Finish call that cannot complete (1-5 byte output) followed by None/Sync/Full: accepted and reported as stream end"),
 "C15a": ("C15", "strategy Fixed, all input bytes >= 144, n about 5200..32768, one mz_deflate(MZ_FINISH) into a bound-sized buffer (first block can never fall back to stored)"),
 "C15b": ("C15", "mz_deflateBound uses min instead of max: level 1 on incompressible input of about 200 KB or more"),
 "C16a": ("C16", "a single large input slice (> 32-64 KiB) with an output buffer too small for a block: compress returns after consuming a prefix and the tail is hashed twice"),
 "C16b": ("C16", "mz_adler32 / mz_crc32 with a zero-length chunk and a non-null pointer while the running value is not the initial one"),
 "C17a": ("C17", "mz_inflate returning an error after making progress (MZ_FINISH with a short buffer, or a stream corrupted mid-way): pointers advance, totals do not"),
 "C17b": ("C17", "tdefl_compress_mem_to_mem with out_buf_len exactly equal to the compressed size"),
 "C18a": ("C18", "compressor fed data with flush None and abandoned before any flush, then reset(): stale Huffman symbol counts in the next stream's first block"),
 "C18b": ("C18", "reset (MinReset/ZeroReset/FullReset/init()) after a stream cut mid-way with bits still pending: bit_buf not cleared"),
 "C19a": ("C19", "stop-at-block-boundary with a Huffman block whose end-of-block code is decoded outside the fast loop (< 14 input bytes or < 259 output bytes left in that call)"),
 "C19b": ("C19", "serde snapshot taken while suspended on NeedsMoreInput inside the code-length section of a dynamic block header (len_codes skipped)"),
}

def main():
    rows = []
    for d in sorted(glob.glob(os.path.join(ROOT, "seeded", "*", "meta.json"))):
        m = json.load(open(d))
        name = m["name"]
        if name in NEEDS:
            m["breaks"] = NEEDS[name][0]
            m["needs"] = NEEDS[name][1]
        m.setdefault("what_was_run", "lib/seed_confirm.sh: scratch worktree: git apply patch.diff; cargo test --workspace --no-fail-fast --offline (suite); demo test with and without the change; then bin/check <props> --tier quick against the patched tree on an isolated snapshot (lib/snap.sh); patch reverted afterwards")
        json.dump(m, open(d, "w"), indent=1)
        caught = [c for c in m.get("checks_run", []) if c.get("rc") == 1]
        missed = [c for c in m.get("checks_run", []) if c.get("rc") == 0]
        rows.append((name, m.get("breaks", ""), m.get("needs", ""), m["confirmed"],
                     "; ".join("%s (%s)" % (c["property"], c["rules"].strip()) for c in caught) or "-",
                     ", ".join(c["property"] for c in missed) or "-", m.get("note", "")))
    with open(os.path.join(ROOT, "seeded", "SUMMARY.md"), "w") as f:
        f.write("# Seeded mutations and which checks catch them\n\n")
        f.write("Each mutation compiles, passes the 66 existing tests, and has a demonstration that fails with it and passes without "
                "(confirmed in a scratch worktree; see meta.json). 'caught by' lists the quick checks that exit 1 with the rules printed; "
                "'not caught by' lists checks that were also run against it and stayed green (usually a neighbouring property's check).\n\n")
        f.write("| mutation | property | needs, to manifest | caught by (rules) | run but not caught by | note |\n|---|---|---|---|---|---|\n")
        for r in rows:
            f.write("| %s | %s | %s | %s | %s | %s |\n" % (r[0], r[1], r[2], r[4], r[5], r[6]))
    print(len(rows), "mutations summarised")

if __name__ == "__main__":
    main()
