#!/bin/bash
# robustness: every quick check under several seeds on the unchanged tree
cd "$(dirname "$0")/.."
bin/setup >/dev/null 2>&1
for seed in ${@:-2 3 4}; do
  for p in C01 C02 C03 C04 C05 C06 C07 C08 C09 C10 C11 C12 C13 C14 C15 C16 C17 C18 C19; do
    s=$(date +%s)
    out=$(VERIF_SEED=$seed bin/check $p --tier quick 2>&1); rc=$?
    echo "seed=$seed $p rc=$rc $(( $(date +%s) - s ))s"
    echo "$out" | grep -E "VIOLATION|rules=|KNOWN-FINDING|TOOL-ERROR" | head -6
  done
done
