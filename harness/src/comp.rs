//! Compression-side scenarios: one-shot (C01), low-level streaming compress with schedules
//! (C02, C09, C10, C11, C12, C16), deflate() wrapper (C14).
use crate::gen;
use crate::tr::{bytes, Tr};
use miniz_oxide::deflate::core::{
    compress, compress_to_output, CompressionStrategy, CompressorOxide, TDEFLFlush, TDEFLStatus,
};
use miniz_oxide::deflate::stream::deflate;
use miniz_oxide::deflate::{compress_to_vec, compress_to_vec_zlib};
use miniz_oxide::inflate::{decompress_to_vec, decompress_to_vec_zlib};
use miniz_oxide::{DataFormat, MZFlush};
use rand::rngs::StdRng;
use rand::Rng;
use serde_json::{json, Value};
use std::panic::{catch_unwind, AssertUnwindSafe};

/// Independent Adler-32 (RFC 1950) used to digest what the crate returned.
pub fn adler_pair(data: &[u8]) -> (u32, u32) {
    let (mut a, mut b) = (1u32, 0u32);
    for &x in data {
        a = (a + x as u32) % 65521;
        b = (b + a) % 65521;
    }
    (a, b)
}
pub fn adler_pair_of_u32(v: u32) -> (u32, u32) {
    (v & 0xffff, v >> 16)
}
pub fn pair_json(p: (u32, u32)) -> Value {
    json!([p.0, p.1])
}

pub const STRATS: [(&str, CompressionStrategy, i32); 5] = [
    ("Default", CompressionStrategy::Default, 0),
    ("Filtered", CompressionStrategy::Filtered, 1),
    ("HuffmanOnly", CompressionStrategy::HuffmanOnly, 2),
    ("RLE", CompressionStrategy::RLE, 3),
    ("Fixed", CompressionStrategy::Fixed, 4),
];

pub const FLUSHES: [(&str, TDEFLFlush); 8] = [
    ("None", TDEFLFlush::None),
    ("Partial", TDEFLFlush::Partial),
    ("Sync", TDEFLFlush::Sync),
    ("Full", TDEFLFlush::Full),
    ("Finish", TDEFLFlush::Finish),
    ("PartialOpt", TDEFLFlush::PartialOpt),
    ("SyncOpt", TDEFLFlush::SyncOpt),
    ("NoSync", TDEFLFlush::NoSync),
];

pub fn tdefl_status(s: TDEFLStatus) -> &'static str {
    match s {
        TDEFLStatus::BadParam => "BadParam",
        TDEFLStatus::PutBufFailed => "PutBufFailed",
        TDEFLStatus::Okay => "Okay",
        TDEFLStatus::Done => "Done",
    }
}

pub fn mz_result(r: &miniz_oxide::MZResult) -> String {
    match r {
        Ok(s) => format!("{:?}", s),
        Err(e) => format!("Err{:?}", e),
    }
}

fn dec_summary(zlib: bool, z: &[u8]) -> Value {
    dec_summary_eq(zlib, z, None).0
}

/// Returns the summary and whether the crate's own decoder reproduced `want` exactly.
fn dec_summary_eq(zlib: bool, z: &[u8], want: Option<&[u8]>) -> (Value, bool) {
    let r = catch_unwind(AssertUnwindSafe(|| {
        if zlib {
            decompress_to_vec_zlib(z)
        } else {
            decompress_to_vec(z)
        }
    }));
    match r {
        Err(_) => (json!({"status": "panic"}), false),
        Ok(Ok(v)) => {
            let eq = want.map_or(true, |w| w == &v[..]);
            (json!({"status": "Ok", "len": v.len(), "adler": pair_json(adler_pair(&v))}), eq)
        }
        Ok(Err(e)) => {
            (json!({"status": format!("{:?}", e.status), "len": e.output.len(), "adler": pair_json(adler_pair(&e.output))}), false)
        }
    }
}

/// C01: one-shot helpers at a given level.
pub fn oneshot_case(tr: &mut Tr, id: &str, prop: &str, input: &[u8], level: u8, zlib: bool, kind: &str) {
    tr.case(id, prop, json!({"kind": kind, "n": input.len()}));
    let r = catch_unwind(AssertUnwindSafe(|| {
        if zlib {
            compress_to_vec_zlib(input, level)
        } else {
            compress_to_vec(input, level)
        }
    }));
    let out = match r {
        Err(_) => {
            tr.ev(json!({"ev": "panic", "where": "compress_to_vec", "level": level, "zlib": zlib}));
            return;
        }
        Ok(v) => v,
    };
    tr.ev(json!({"ev": "stream", "zlib": zlib, "mode": "verify", "z": bytes(&out), "p": bytes(input)}));
    tr.ev(json!({"ev": "compressed",
        "cfg": {"api": "vec", "level": level, "strategy": 0, "zlib": zlib, "wbits": 15},
        "in_len": input.len(), "out_len": out.len()}));
    tr.ev(json!({"ev": "roundtrip", "dec": dec_summary(zlib, &out)}));
}

/// Cheap exploration of the one-shot helpers: returns true if the crate's own round trip is off.
pub fn oneshot_suspicious(input: &[u8], level: u8, zlib: bool) -> bool {
    let r = catch_unwind(AssertUnwindSafe(|| {
        let z = if zlib { compress_to_vec_zlib(input, level) } else { compress_to_vec(input, level) };
        let d = if zlib { decompress_to_vec_zlib(&z) } else { decompress_to_vec(&z) };
        match d {
            Ok(v) => v != input,
            Err(_) => true,
        }
    }));
    r.unwrap_or(true)
}

pub struct Cfg {
    pub zlib: bool,
    pub level: u8,
    pub strat: usize,
    pub wbits: u8,
    /// "params" = with_params, "flags" = new(create_comp_flags_from_zip_params),
    /// "params_reused" = with_params, then a first stream is compressed and the object reset()
    pub api: &'static str,
}

impl Cfg {
    pub fn make(&self) -> CompressorOxide {
        if self.api == "params_reused" {
            // the configuration must survive a complete earlier stream and reset()
            let mut c = CompressorOxide::with_params(
                if self.zlib { DataFormat::Zlib } else { DataFormat::Raw },
                self.level,
                STRATS[self.strat].1,
                self.wbits,
            );
            let junk: Vec<u8> = (0..9000u32).map(|i| (i.wrapping_mul(2654435761) >> 13) as u8).collect();
            let mut out = vec![0u8; 20000];
            let _ = compress(&mut c, &junk, &mut out, TDEFLFlush::Finish);
            c.reset();
            return c;
        }
        if self.api.starts_with("set") || self.api.starts_with("wset") {
            // created with a configuration that does no match finding at all (or a different one),
            // then switched to the wanted level by one of the setters before any input: the result
            // must behave like a compressor created from the flags of that level
            let fmt = if self.zlib { DataFormat::Zlib } else { DataFormat::Raw };
            if self.api == "wsetI" || self.api == "wsetZ" {
                // a small window fixed at creation, then a setter: the window declared in the header and
                // the distance bound must both survive whatever the setter accepts
                let mut c = CompressorOxide::with_params(DataFormat::Zlib, 1, CompressionStrategy::Default, self.wbits);
                c.set_format_and_level(if self.api == "wsetI" { DataFormat::ZLibIgnoreChecksum } else { DataFormat::Zlib }, self.level);
                return c;
            }
            if self.api == "setZ" || self.api == "setZR" {
                // raw-deflate flags first, switched to the wanted format and level by exactly ONE setter call
                let fmt = if self.zlib { DataFormat::Zlib } else { DataFormat::Raw };
                let mut c = CompressorOxide::new(miniz_oxide::deflate::core::create_comp_flags_from_zip_params(
                    if self.api == "setZ" { 6 } else { 1 }, -15, 0));
                if self.api == "setZR" {
                    let junk: Vec<u8> = (0..3000u32).map(|i| (i.wrapping_mul(2654435761) >> 9) as u8).collect();
                    let mut out = vec![0u8; 20000];
                    let _ = compress(&mut c, &junk, &mut out, TDEFLFlush::Finish);
                    c.reset();
                }
                c.set_format_and_level(fmt, self.level);
                return c;
            }
            if self.api == "setI" || self.api == "newI" {
                // DataFormat::ZLibIgnoreChecksum "behaves the same as Zlib for compression"
                use miniz_oxide::deflate::CompressionLevel as L;
                let l = match self.level { 0 => L::NoCompression, 1 => L::BestSpeed, 9 => L::BestCompression, 10 => L::UberCompression, _ => L::DefaultLevel };
                let mut c = if self.api == "newI" {
                    CompressorOxide::with_format_and_level(DataFormat::ZLibIgnoreChecksum, l)
                } else {
                    CompressorOxide::default()
                };
                if self.api == "setI" || l as u8 != self.level {
                    c.set_format_and_level(DataFormat::ZLibIgnoreChecksum, self.level);
                }
                return c;
            }
            let mut c = match self.api {
                "set0" | "setR" => CompressorOxide::with_params(fmt, 0, CompressionStrategy::Default, 15),
                "setH" => CompressorOxide::with_params(fmt, 6, CompressionStrategy::HuffmanOnly, 15),
                "set9" => CompressorOxide::with_params(fmt, 9, CompressionStrategy::Default, 15),
                _ => {
                    let mut c = CompressorOxide::new(0);
                    c.set_format_and_level(fmt, 0);
                    c
                }
            };
            if self.api == "setR" {
                let junk: Vec<u8> = (0..5000u32).map(|i| (i.wrapping_mul(2654435761) >> 11) as u8).collect();
                let mut out = vec![0u8; 20000];
                let _ = compress(&mut c, &junk, &mut out, TDEFLFlush::Finish);
                c.reset();
            }
            match self.level % 3 {
                0 => c.set_compression_level_raw(self.level),
                1 => c.set_format_and_level(fmt, self.level),
                _ => {
                    use miniz_oxide::deflate::CompressionLevel as L;
                    let l = match self.level { 1 => L::BestSpeed, 9 => L::BestCompression, 10 => L::UberCompression, 6 => L::DefaultLevel, _ => L::DefaultLevel };
                    if l as u8 == self.level { c.set_compression_level(l) } else { c.set_compression_level_raw(self.level) }
                }
            }
            return c;
        }
        if self.api == "params" {
            CompressorOxide::with_params(
                if self.zlib { DataFormat::Zlib } else { DataFormat::Raw },
                self.level,
                STRATS[self.strat].1,
                self.wbits,
            )
        } else {
            let flags = miniz_oxide::deflate::core::create_comp_flags_from_zip_params(
                self.level as i32,
                if self.zlib { 15 } else { -15 },
                STRATS[self.strat].2,
            );
            CompressorOxide::new(flags)
        }
    }
    pub fn json(&self, c: &CompressorOxide) -> Value {
        if self.api.starts_with("wset") {
            return json!({"api": "flags", "level": self.level, "strategy": 0, "zlib": true, "wbits": self.wbits, "flags": c.flags(),
                          "reused": false, "made_by": self.api});
        }
        if self.api.starts_with("set") {
            return json!({"api": "flags", "level": self.level, "strategy": 0, "zlib": self.zlib, "wbits": 15, "flags": c.flags(),
                          "reused": self.api == "setR" || self.api == "setZR", "made_by": self.api});
        }
        json!({"api": if self.api == "params_reused" { "params" } else { self.api }, "level": self.level, "strategy": STRATS[self.strat].2, "zlib": self.zlib,
               "wbits": if self.api != "flags" { self.wbits } else { 15 }, "flags": c.flags(), "reused": self.api == "params_reused"})
    }
}

pub struct Sched {
    pub chunk_pat: String,
    /// candidate output sizes; one is drawn per call
    pub outs: Vec<usize>,
    /// probability (percent) of a non-None flush on a non-final call
    pub flush_pct: u32,
    /// which flush modes may be drawn mid-stream (indices into FLUSHES, never Finish)
    pub flush_set: Vec<usize>,
    pub callback: bool,
    /// max number of flush-point prefix snapshots to verify
    pub max_points: usize,
}

thread_local! {
    /// explicit call list for the next stream_comp_case: (input bytes added to the offer, output
    /// buffer size, flush index) per call; afterwards the stream is finished with large buffers
    pub static SCRIPT: std::cell::RefCell<Vec<(usize, usize, usize)>> = std::cell::RefCell::new(Vec::new());
}

/// how many plaintext bytes the crate's own decoder gets out of a stream prefix (harness-side
/// pre-filter only; the verdict on a flush point comes from the acceptor)
fn prefix_decodes_to(zlib: bool, z: &[u8], want: usize) -> bool {
    use miniz_oxide::inflate::core::{decompress, inflate_flags, DecompressorOxide};
    let mut d = DecompressorOxide::new();
    let mut out = vec![0u8; want + 1024];
    let flags = inflate_flags::TINFL_FLAG_USING_NON_WRAPPING_OUTPUT_BUF | inflate_flags::TINFL_FLAG_HAS_MORE_INPUT
        | if zlib { inflate_flags::TINFL_FLAG_PARSE_ZLIB_HEADER } else { 0 };
    let r = catch_unwind(AssertUnwindSafe(|| decompress(&mut d, z, &mut out, 0, flags)));
    match r {
        Ok((_, _, w)) => w == want,
        Err(_) => false,
    }
}

thread_local! {
    /// probability (percent) per call of changing the compression level mid-stream
    /// (set_compression_level_raw), for the scenarios that exercise it
    pub static RELEVEL_PCT: std::cell::Cell<u32> = std::cell::Cell::new(0);
}

/// Projection of the match finder's state (verif_lz_state hook) against the input of the stream:
/// the record DeflateLZRules!StateRules is evaluated on.  `taken` = input bytes consumed so far.
pub fn lz_proj(c: &mut CompressorOxide, input: &[u8], taken: usize, flush: &str, quiet: bool) -> Value {
    // high-water mark of look-ahead + history inside the match finders during the call just made
    let fillmax = c.verif_lz_fill_max();
    // largest LZ code buffer position any tokenising step of that call started from
    let codepos_max = c.verif_lz_code_pos_max();
    const DICT: usize = 32768;
    const MAXM: usize = 258;
    let (lapos, lasize, dsize, saved_len, d) = c.verif_lz_state();
    let mut hist_bad = 0usize;
    for k in 1..=dsize.min(DICT) {
        if k > lapos || lapos - k >= input.len() || d[(lapos - k) & (DICT - 1)] != input[lapos - k] {
            hist_bad = k;
            break;
        }
    }
    let mut look_bad = 0usize;
    for i in 0..lasize.min(DICT) {
        if lapos + i >= input.len() || d[(lapos + i) & (DICT - 1)] != input[lapos + i] {
            look_bad = i + 1;
            break;
        }
    }
    let mut mirror_bad = 0usize;
    for j in 0..MAXM - 1 {
        if d[DICT + j] != d[j] {
            mirror_bad = j + 1;
            break;
        }
    }
    let f = c.flags();
    let fast = f & 0xFFF == 1 && f & 0x4000 != 0 && f & (0x20000 | 0x80000 | 0x10000) == 0;
    json!({"lapos": lapos, "lasize": lasize, "dsize": dsize, "taken": taken, "hist_bad": hist_bad,
           "look_bad": look_bad, "mirror_bad": mirror_bad, "saved_len": saved_len,
           "idle": quiet, "flush": flush, "lamax": if fast { 4096 } else { MAXM }, "fillmax": fillmax, "codepos_max": codepos_max})
}

/// Drive the low-level compressor along a schedule; log every call; then log the whole
/// output as a stream to be parsed by the acceptor.
pub fn stream_comp_case(
    tr: &mut Tr,
    id: &str,
    prop: &str,
    input: &[u8],
    cfg: &Cfg,
    sch: &Sched,
    r: &mut StdRng,
    kind: &str,
) -> bool {
    tr.case(id, prop, json!({"kind": kind, "n": input.len(), "chunks": sch.chunk_pat, "cb": sch.callback}));
    let mut c = cfg.make();
    let cfgj = cfg.json(&c);
    tr.ev(json!({"ev": "input", "p": bytes(input)}));
    tr.ev(json!({"ev": "comp_new", "cfg": cfgj.clone()}));
    let script: Vec<(usize, usize, usize)> = SCRIPT.with(|s| std::mem::take(&mut *s.borrow_mut()));
    let chunks = if script.is_empty() { gen::chunks(&sch.chunk_pat, input.len(), r) } else { Vec::new() };
    let mut out_all: Vec<u8> = Vec::new();
    let mut pos = 0usize; // consumed so far
    let mut offered_end = 0usize; // end of the chunk currently on offer
    let mut ci = 0usize;
    let mut finishing = false;
    let mut calls = 0usize;
    let mut cuts: Vec<usize> = Vec::new();
    let mut points = 0usize;
    let mut releveled = false;
    let mut prev_left_space = true; // previous call left output space unused (nothing pending)
    let mut pending_full: Option<usize> = None;
    let mut nosync_since: Option<usize> = None;
    let _ = &mut nosync_since;
    loop {
        calls += 1;
        if calls > 400_000 {
            tr.ev(json!({"ev": "hang", "where": "compress loop"}));
            return true;
        }
        if pos == offered_end && ci < chunks.len() {
            offered_end += chunks[ci];
            ci += 1;
        }
        let last_chunk = ci >= chunks.len();
        let flush_i = if finishing {
            4
        } else if last_chunk && pos == offered_end || (last_chunk && r.gen_range(0..2) == 0) {
            finishing = true;
            4
        } else if r.gen_range(0..100) < sch.flush_pct && !sch.flush_set.is_empty() {
            sch.flush_set[r.gen_range(0..sch.flush_set.len())]
        } else {
            0
        };
        let mut flush_i = flush_i;
        let mut scripted_out: Option<usize> = None;
        if !script.is_empty() {
            if calls <= script.len() {
                let (add, ol, fi) = script[calls - 1];
                offered_end = (offered_end + add).min(input.len());
                flush_i = fi;
                finishing = fi == 4;
                scripted_out = Some(ol);
            } else {
                offered_end = input.len();
                finishing = true;
                flush_i = 4;
                scripted_out = Some(1 << 20);
            }
        }
        let flush = FLUSHES[flush_i].1;
        let rp = RELEVEL_PCT.with(|c| c.get());
        if rp > 0 && r.gen_range(0..100) < rp {
            // allowed by the API; refused by the compressor itself when the new level would need a
            // larger window than the one fixed at creation
            let nl = [1u8, 2, 6, 9][r.gen_range(0..4)];
            c.set_compression_level_raw(nl);
            releveled = true;
            tr.ev(json!({"ev": "note", "what": "set_compression_level_raw", "level": nl, "flags": c.flags()}));
        }
        let chunk = &input[pos..offered_end];
        let out_len = match scripted_out { Some(ol) => ol, None => sch.outs[r.gen_range(0..sch.outs.len())] };
        let res = if sch.callback {
            let mut got: Vec<u8> = Vec::new();
            let rr = catch_unwind(AssertUnwindSafe(|| {
                compress_to_output(&mut c, chunk, flush, |b: &[u8]| {
                    got.extend_from_slice(b);
                    true
                })
            }));
            match rr {
                Err(_) => None,
                Ok((st, used)) => {
                    let w = got.len();
                    out_all.extend_from_slice(&got);
                    Some((st, used, w, usize::MAX))
                }
            }
        } else {
            let mut buf = vec![0xA5u8; out_len];
            let rr = catch_unwind(AssertUnwindSafe(|| compress(&mut c, chunk, &mut buf, flush)));
            match rr {
                Err(_) => None,
                Ok((st, used, w)) => {
                    if w <= buf.len() {
                        out_all.extend_from_slice(&buf[..w]);
                    }
                    Some((st, used, w, out_len))
                }
            }
        };
        let (st, used, w, olen) = match res {
            None => {
                tr.ev(json!({"ev": "panic", "where": "compress", "flush": FLUSHES[flush_i].0,
                             "in_len": chunk.len(), "out_len": out_len}));
                return true;
            }
            Some(x) => x,
        };
        let mut e = json!({"ev": "comp", "in_len": chunk.len(), "flush": FLUSHES[flush_i].0,
            "status": tdefl_status(st), "consumed": used, "written": w, "cb": sch.callback,
            "adler": pair_json(adler_pair_of_u32(c.adler32())),
            "in_total": pos + used.min(chunk.len()), "bits_left": c.unwritten_bit_count(),
            "zlib": c.flags() & 0x1000 != 0});
        if !sch.callback {
            e["out_len"] = json!(olen);
        }
        if used <= chunk.len() && !releveled {
            let spare0 = sch.callback || w < olen;
            let quiet = prev_left_space && pos + used == offered_end && spare0
                && (st == TDEFLStatus::Okay || st == TDEFLStatus::Done);
            e["lz"] = lz_proj(&mut c, input, pos + used, FLUSHES[flush_i].0, quiet);
        }
        tr.ev(e);
        if used > chunk.len() || (!sch.callback && w > olen) {
            return true; // contract already violated; the trace spec reports it
        }
        pos += used;
        // flush point (C12): request made with nothing pending, all offered input consumed,
        // output space to spare
        let spare = sch.callback || w < olen;
        let qualifies = flush_i != 0 && flush_i != 4 && prev_left_space && pos == offered_end && spare
            && st == TDEFLStatus::Okay;
        // a Full flush asked for with nothing pending and all input consumed whose output did not fit:
        // it is complete once the rest has been collected by calls that bring no new input
        if flush_i == 3 && prev_left_space && pos == offered_end && !spare && st == TDEFLStatus::Okay {
            pending_full = Some(pos);
        } else if let Some(fp) = pending_full {
            if chunk.is_empty() && pos == fp && st == TDEFLStatus::Okay {
                if spare {
                    if flush_i == 3 || flush_i == 0 || flush_i == 2 {
                        cuts.push(fp);
                    }
                    pending_full = None;
                }
            } else {
                pending_full = None;
            }
        }
        if qualifies {
            if flush_i == 3 {
                cuts.push(pos);
            }
            if flush_i != 7 && !prefix_decodes_to(cfg.zlib && cfgj["flags"].as_i64().unwrap_or(0) & 0x1000 != 0, &out_all, pos) {
                tr.suspect = true;
            }
            if points < sch.max_points {
                points += 1;
                tr.ev(json!({"ev": "stream", "zlib": cfg.zlib && cfgj["flags"].as_i64().unwrap_or(0) & 0x1000 != 0,
                    "mode": "verify", "prefix": true, "z": bytes(&out_all), "plen": pos}));
                tr.ev(json!({"ev": "flushpoint", "flush": FLUSHES[flush_i].0, "in_total": pos,
                             "out_total": out_all.len(), "bits_left": c.unwritten_bit_count()}));
            }
        }
        prev_left_space = spare;
        match st {
            TDEFLStatus::Done => break,
            TDEFLStatus::Okay => {}
            _ => {
                return true;
            }
        }
    }
    let zl = cfgj["flags"].as_i64().unwrap_or(0) & 0x1000 != 0;
    tr.ev(json!({"ev": "stream", "zlib": zl, "mode": "verify", "z": bytes(&out_all), "plen": input.len(),
                 "cuts": cuts}));
    let mut ce = json!({"ev": "compressed", "cfg": cfgj, "in_len": input.len(), "out_len": out_all.len(),
                 "streamed": true});
    if tr.redundant {
        ce["redundant"] = json!(true);
    }
    if releveled {
        ce["releveled"] = json!(true);
    }
    tr.ev(ce);
    let (ds, eq) = dec_summary_eq(zl, &out_all, Some(input));
    tr.ev(json!({"ev": "roundtrip", "dec": ds}));
    !eq
}

pub fn mzflush_name(f: MZFlush) -> &'static str {
    match f {
        MZFlush::None => "None",
        MZFlush::Partial => "Partial",
        MZFlush::Sync => "Sync",
        MZFlush::Full => "Full",
        MZFlush::Finish => "Finish",
        MZFlush::Block => "Block",
        _ => "Other",
    }
}

/// C14: deflate() wrapper driven by an explicit call list (chunk, out, flush); input is consumed
/// in order; after the list the driver finishes the stream with the canonical loop.
pub fn deflate_case(
    tr: &mut Tr,
    id: &str,
    prop: &str,
    input: &[u8],
    cfg: &Cfg,
    calls: &[(usize, usize, MZFlush)],
    finish_out: usize,
    kind: &str,
) {
    tr.case(id, prop, json!({"kind": kind, "n": input.len()}));
    let mut c = cfg.make();
    let cfgj = cfg.json(&c);
    tr.ev(json!({"ev": "input", "p": bytes(input)}));
    tr.ev(json!({"ev": "comp_new", "cfg": cfgj.clone()}));
    let mut out_all: Vec<u8> = Vec::new();
    let mut pos = 0usize;
    let mut ended = false;
    let mut misuse = false; // a non-Finish call after Finish was made: stream may be abandoned
    let mut finish_seen = false;
    let mut do_call = |tr: &mut Tr, pos: &mut usize, chunk_len: usize, out_len: usize, flush: MZFlush,
                       out_all: &mut Vec<u8>|
     -> Option<miniz_oxide::StreamResult> {
        let end = (*pos + chunk_len).min(input.len());
        let chunk = &input[*pos..end];
        let mut buf = vec![0x5Au8; out_len];
        let rr = catch_unwind(AssertUnwindSafe(|| deflate(&mut c, chunk, &mut buf, flush)));
        match rr {
            Err(_) => {
                tr.ev(json!({"ev": "panic", "where": "deflate"}));
                None
            }
            Ok(res) => {
                let untouched = buf[res.bytes_written.min(out_len)..].iter().all(|&b| b == 0x5A);
                let mut e = json!({"ev": "defl", "in_len": chunk.len(), "out_len": out_len, "flush": mzflush_name(flush),
                    "status": mz_result(&res.status), "consumed": res.bytes_consumed, "written": res.bytes_written,
                    "tail_untouched": untouched,
                    "adler": pair_json(adler_pair_of_u32(c.adler32()))});
                if res.bytes_consumed <= chunk.len() {
                    e["lz"] = lz_proj(&mut c, input, *pos + res.bytes_consumed, mzflush_name(flush), false);
                }
                tr.ev(e);
                if res.bytes_consumed <= chunk.len() && res.bytes_written <= out_len {
                    *pos += res.bytes_consumed;
                    out_all.extend_from_slice(&buf[..res.bytes_written]);
                    Some(res)
                } else {
                    None
                }
            }
        }
    };
    let mut prev_spare = true;
    let mut points = 0;
    for &(ch, ol, fl) in calls {
        if finish_seen && fl != MZFlush::Finish {
            misuse = true;
        }
        if fl == MZFlush::Finish {
            finish_seen = true;
        }
        let offered = ch.min(input.len() - pos);
        match do_call(tr, &mut pos, ch, ol, fl, &mut out_all) {
            None => return,
            Some(res) => {
                if res.status == Ok(miniz_oxide::MZStatus::StreamEnd) {
                    ended = true;
                }
                // C12 through the wrapper: a flush made with nothing pending that consumed all it was
                // offered and left output space makes everything so far decodable
                let spare = res.bytes_written < ol;
                if !misuse && !ended && prev_spare && spare && res.status == Ok(miniz_oxide::MZStatus::Ok)
                    && res.bytes_consumed == offered && (fl == MZFlush::Sync || fl == MZFlush::Full || fl == MZFlush::Partial)
                    && points < 3
                {
                    points += 1;
                    let zl = cfgj["flags"].as_i64().unwrap_or(0) & 0x1000 != 0;
                    tr.ev(json!({"ev": "stream", "zlib": zl, "mode": "verify", "prefix": true, "z": bytes(&out_all), "plen": pos}));
                    tr.ev(json!({"ev": "flushpoint", "flush": mzflush_name(fl), "in_total": pos, "out_total": out_all.len(), "bits_left": 0}));
                }
                prev_spare = spare && ol > 0;
            }
        }
    }
    if misuse {
        tr.ev(json!({"ev": "defl_end", "misuse": true, "ended": ended}));
        return;
    }
    // canonical driver loop to the end (Finish with the whole remaining input)
    let mut guard = 0;
    while !ended {
        guard += 1;
        if guard > 200_000 {
            tr.ev(json!({"ev": "hang", "where": "deflate finish loop"}));
            return;
        }
        let rem = input.len() - pos;
        match do_call(tr, &mut pos, rem, finish_out, MZFlush::Finish, &mut out_all) {
            None => return,
            Some(res) => match res.status {
                Ok(miniz_oxide::MZStatus::StreamEnd) => ended = true,
                Ok(_) => {}
                Err(_) => {
                    tr.ev(json!({"ev": "defl_end", "misuse": false, "ended": false, "error": true}));
                    return;
                }
            },
        }
    }
    tr.ev(json!({"ev": "defl_end", "misuse": false, "ended": true, "in_total": pos}));
    // after the end: Finish keeps returning stream-end with nothing written, anything else is a
    // buffer error (the calls are logged and judged by the contract; output is not extended)
    let mut scratch = Vec::new();
    let mut p2 = pos;
    for (k, &(fl, ol)) in [(MZFlush::None, 16usize), (MZFlush::Finish, 1), (MZFlush::Sync, 200), (MZFlush::Finish, 300),
                          (MZFlush::Full, 5), (MZFlush::None, 1)].iter().enumerate() {
        if (k + input.len() + finish_out) % 3 == 0 {
            continue;
        }
        if do_call(tr, &mut p2, (k % 2) * 3, ol, fl, &mut scratch).is_none() {
            return;
        }
    }
    let zl = cfgj["flags"].as_i64().unwrap_or(0) & 0x1000 != 0;
    tr.ev(json!({"ev": "stream", "zlib": zl, "mode": "verify", "z": bytes(&out_all), "plen": pos}));
    tr.ev(json!({"ev": "compressed", "cfg": cfgj, "in_len": pos, "out_len": out_all.len(), "streamed": true}));
}
