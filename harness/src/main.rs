#![allow(dead_code)]
//! drv: drives miniz_oxide (and its C shim) and writes ndjson traces that TLC validates
//! against the specifications in /verif/spec.
mod capi;
mod cks;
mod comp;
mod gen;
mod huff;
mod infl;
mod reset;
mod scn_dec;
mod tr;

use comp::*;
use rand::Rng;
use serde_json::json;
use tr::Tr;

pub struct Opts {
    pub scenario: String,
    pub seed: u64,
    pub thorough: bool,
    pub out: String,
    pub shards: usize,
    pub only: Option<String>,
    pub input: Option<String>,
}

fn parse() -> Opts {
    let a: Vec<String> = std::env::args().collect();
    let mut o = Opts { scenario: a.get(1).cloned().unwrap_or_default(), seed: 1, thorough: false,
                       out: ".".into(), shards: 1, only: None, input: None };
    let mut i = 2;
    while i < a.len() {
        match a[i].as_str() {
            "--seed" => { o.seed = a[i + 1].parse().unwrap_or(1); i += 1; }
            "--tier" => { o.thorough = a[i + 1] == "thorough"; i += 1; }
            "--out" => { o.out = a[i + 1].clone(); i += 1; }
            "--shards" => { o.shards = a[i + 1].parse().unwrap_or(1); i += 1; }
            "--only" => { o.only = Some(a[i + 1].clone()); i += 1; }
            "--in" => { o.input = Some(a[i + 1].clone()); i += 1; }
            _ => {}
        }
        i += 1;
    }
    o
}

const SIZES_SMALL: [usize; 12] = [0, 1, 2, 3, 4, 31, 32, 33, 47, 48, 257, 258];
const LEVELS_KEY: [u8; 9] = [0, 1, 2, 5, 6, 9, 10, 11, 255];

/// C01: one-shot compress/decompress.
fn scn_oneshot(o: &Opts, tr: &mut Tr) {
    let mut r = gen::rng(o.seed, 101);
    // all 256 levels on tiny inputs
    let tiny: Vec<Vec<u8>> = vec![vec![], vec![7], b"ab".to_vec(), b"abc".to_vec(),
                                  b"aaaaaaaaaaaaaaaaaaaaaaaaaaaaaaaaaaaaaaaaaaaa".to_vec(),
                                  gen::data("text", 120, &mut r)];
    for lvl in 0..=255u8 {
        let k = (lvl as usize + o.seed as usize) % tiny.len();
        oneshot_case(tr, &format!("tiny-l{}-raw", lvl), "C01", &tiny[k], lvl, false, "tiny");
        let k2 = (lvl as usize + 3 + o.seed as usize) % tiny.len();
        oneshot_case(tr, &format!("tiny-l{}-zlib", lvl), "C01", &tiny[k2], lvl, true, "tiny");
    }
    // key levels x formats x families, small and threshold sizes
    // deep Huffman codes (length limiting), parsed token by token by the acceptor
    for (lvl, n) in [(6u8, 30_000usize), (2, 60_000), (9, 20_000), (1, 50_000)] {
        let d = gen::data("fibo", n, &mut r);
        oneshot_case(tr, &format!("fibo-{}-l{}", n, lvl), "C01", &d, lvl, n % 20_000 == 0, "fibo");
    }
    // maximum-length code words back to back (literal clusters, matches with deep distance codes)
    for (i, (kind, lvl, n)) in [("deep15", 6u8, 30_000usize), ("deepdist", 6, 60_000)].iter().enumerate() {
        let d = gen::data(kind, *n, &mut r);
        oneshot_case(tr, &format!("{}-{}-l{}", kind, n, lvl), "C01", &d, *lvl, i % 2 == 0, kind);
    }
    for i in 0..(if o.thorough { 2500 } else { 320 }) {
        let kind = if i % 4 == 3 { "deepdist" } else { "deep15" };
        let n = if kind == "deepdist" { r.gen_range(40_000..70_000) } else { r.gen_range(20_000..66_000) };
        let lvl = [1u8, 2, 4, 6, 9, 10][i % 6];
        let d = gen::data(kind, n, &mut r);
        let zl = i % 2 == 0;
        if oneshot_suspicious(&d, lvl, zl) && tr.take_suspicious_slot() {
            oneshot_case(tr, &format!("bulkd-{}-{}-{}-l{}-{}", i, kind, n, lvl, zl), "C01", &d, lvl, zl, kind);
        }
        tr.bulk_run += 1;
    }
    // exactly 65535 / 65536 / 65537 matches on one distance symbol in a stream (16-bit symbol counters)
    for d in [1000usize, 40, 9000] {
        for units in [65535usize, 65536, 65537] {
            for lvl in [2u8, 6] {
                let kind = format!("unitmatch{}", d);
                let data = gen::data(&kind, d + 8 * units, &mut r);
                let zl = (units + d) % 2 == 0;
                if oneshot_suspicious(&data, lvl, zl) && tr.take_suspicious_slot() {
                    oneshot_case(tr, &format!("bulku-{}-{}-l{}-{}", kind, units, lvl, zl), "C01", &data, lvl, zl, "unitmatch");
                }
                tr.bulk_run += 1;
            }
        }
    }
    let kinds = ["text", "rand", "alpha4", "zeros", "period7", "runs", "planted300", "mixed", "xx"];
    for (ki, kind) in kinds.iter().enumerate() {
        for (li, &lvl) in LEVELS_KEY.iter().enumerate() {
            for zl in [false, true] {
                let n = SIZES_SMALL[(ki + li + o.seed as usize) % SIZES_SMALL.len()];
                let d = gen::data(kind, n, &mut r);
                oneshot_case(tr, &format!("s-{}-{}-l{}-{}", kind, n, lvl, zl), "C01", &d, lvl, zl, kind);
                let n2 = r.gen_range(259..3000);
                let d = gen::data(kind, n2, &mut r);
                oneshot_case(tr, &format!("m-{}-{}-l{}-{}", kind, n2, lvl, zl), "C01", &d, lvl, zl, kind);
            }
        }
    }
    // threshold sizes with cheap-to-parse data (compressible or stored)
    // (the ring is followed by a mirror of its first 257 bytes: sizes that end 256..259 bytes into a lap)
    let thr: [usize; 22] = [4095, 4096, 4097, 31743, 31744, 31745, 32767, 32768, 32769, 65535, 65536, 65537, 85196, 85197,
                            33024, 33025, 33026, 33027, 65792, 65793, 65794, 65795];
    for (ti, &n) in thr.iter().enumerate() {
        for (kind, lvl) in [("zeros", 1u8), ("period7", 6), ("rand", 0), ("runs", 9), ("zeros", 0), ("period300", 2)] {
            let zl = (ti + lvl as usize) % 2 == 0;
            let d = gen::data(kind, n, &mut r);
            oneshot_case(tr, &format!("t-{}-{}-l{}-{}", kind, n, lvl, zl), "C01", &d, lvl, zl, kind);
        }
    }
    // several windows long
    for (kind, lvl, n) in [("period1000", 6u8, 200_000usize), ("rand", 0, 150_000), ("runs", 1, 300_000), ("zeros", 9, 400_000)] {
        let d = gen::data(kind, n, &mut r);
        oneshot_case(tr, &format!("w-{}-{}-l{}", kind, n, lvl), "C01", &d, lvl, n % 2 == 0, kind);
    }
    // cheap exploration: every level x sizes straddling the block / window / buffer thresholds x
    // data families; only a case whose round trip is off is written out for TLC to judge
    let mut nb = 0usize;
    let thr2: [usize; 15] = [258, 4096, 31744, 32768, 58000, 63488, 65535, 65536, 85196, 91018, 98304, 131072, 190000, 33026, 65794];
    for (ti, &t) in thr2.iter().enumerate() {
        for delta in [-2i64, -1, 0, 1, 2] {
            for lvl in 0..=10u8 {
                if t > 70000 && lvl > 6 && !o.thorough { continue; }
                for kind in ["rand", "litmatch", "sparse3"] {
                    if !o.thorough && (ti + lvl as usize + nb) % 2 == 1 && kind != "rand" { nb += 1; continue; }
                    nb += 1;
                    let n = (t as i64 + delta).max(0) as usize;
                    let d = gen::data(kind, n, &mut r);
                    let zl = nb % 2 == 0;
                    if oneshot_suspicious(&d, lvl, zl) && tr.take_suspicious_slot() {
                        oneshot_case(tr, &format!("bulk-{}-{}-l{}-{}", kind, n, lvl, zl), "C01", &d, lvl, zl, kind);
                    }
                    tr.bulk_run += 1;
                }
            }
        }
    }
    for i in 0..(if o.thorough { 6000 } else { 800 }) {
        let kind = ["rand", "litmatch", "text", "mixed", "sparse3", "alpha4", "runs", "xx"][i % 8];
        let n = match i % 5 { 0 => r.gen_range(0..300), 1 => r.gen_range(300..5000), 2 => r.gen_range(5000..40000), 3 => r.gen_range(40000..140000), _ => r.gen_range(30000..36000) };
        let lvl = if i % 13 == 0 { r.gen() } else { (i % 11) as u8 };
        let d = gen::data(kind, n, &mut r);
        let zl = i % 2 == 0;
        if oneshot_suspicious(&d, lvl, zl) && tr.take_suspicious_slot() {
            oneshot_case(tr, &format!("bulkr-{}-{}-{}-l{}-{}", i, kind, n, lvl, zl), "C01", &d, lvl, zl, kind);
        }
        tr.bulk_run += 1;
    }
    // lazy parsing with more than one LZ block on poorly compressible data: the growing output
    // vector is too small when the block is cut, so the call is suspended inside the LZ loop
    for i in 0..(if o.thorough { 3000 } else { 500 }) {
        let kind = ["litmatch", "lazycut", "sparse3", "lazycut"][i % 4];
        let n = if kind == "lazycut" { 36_000 + r.gen_range(0..100_000) } else { 100_000 + r.gen_range(0..150_000) };
        let lvl = 4 + (i % 7) as u8;
        let d = gen::data(kind, n, &mut r);
        let zl = i % 2 == 0;
        if oneshot_suspicious(&d, lvl, zl) && tr.take_suspicious_slot() {
            oneshot_case(tr, &format!("bulkl-{}-{}-{}-l{}-{}", i, kind, n, lvl, zl), "C01", &d, lvl, zl, kind);
        }
        tr.bulk_run += 1;
    }
    if o.thorough {
        // literal-heavy large inputs: LZ buffer full, stored fallback with dictionary wrap
        for (kind, lvl, n) in [("rand", 6u8, 70_000usize), ("rand", 1, 100_000), ("text", 6, 120_000), ("text", 1, 90_000),
                               ("alpha4", 9, 80_000), ("mixed", 6, 150_000), ("mixed", 2, 300_000), ("sparse3", 6, 100_000),
                               ("rand", 10, 40_000), ("planted20000", 6, 100_000), ("xx", 5, 66_000)] {
            for zl in [false, true] {
                let d = gen::data(kind, n, &mut r);
                oneshot_case(tr, &format!("L-{}-{}-l{}-{}", kind, n, lvl, zl), "C01", &d, lvl, zl, kind);
            }
        }
        for i in 0..300 {
            let kind = kinds[r.gen_range(0..kinds.len())];
            let n = r.gen_range(0..12000);
            let lvl = if r.gen_range(0..4) == 0 { r.gen() } else { r.gen_range(0..11) };
            let d = gen::data(kind, n, &mut r);
            oneshot_case(tr, &format!("R{}-{}-{}-l{}", i, kind, n, lvl), "C01", &d, lvl, r.gen(), kind);
        }
    }
}

/// data with a 300-byte random block repeated at exactly distance `d` (cheap filler between)
fn planted_at(d: usize, r: &mut rand::rngs::StdRng) -> Vec<u8> {
    let blk = gen::data("rand", 300.min(d), r);
    let mut v = blk.clone();
    // filler: runs of a single byte value that never occurs adjacent in blk patterns
    while v.len() < d {
        v.push(0);
    }
    v.extend_from_slice(&blk);
    v.extend_from_slice(&gen::data("text", 200, r));
    v
}

fn big_out_sched() -> Sched {
    Sched { chunk_pat: "all".into(), outs: vec![1 << 20], flush_pct: 0, flush_set: vec![], callback: false, max_points: 0 }
}

/// C10 / C11 / C09: every (format, level, strategy, window bits) configuration.
fn scn_configs(o: &Opts, tr: &mut Tr, prop: &str) {
    let mut r = gen::rng(o.seed, 202);
    let levels: Vec<u8> = if o.thorough { (0..=10).collect() } else { vec![0, 1, 2, 4, 6, 9, 10] };
    let mut n = 0usize;
    for zl in [true, false] {
        for &lvl in &levels {
            for st in 0..5usize {
                for wb in 8..=15u8 {
                    if !zl && wb != 15 && wb != 9 && !o.thorough {
                        continue;
                    }
                    n += 1;
                    let cfg = Cfg { zlib: zl, level: lvl, strat: st, wbits: wb, api: "params" };
                    // repeats just beyond the window the header may declare, and within 32 KiB
                    let win = 1usize << wb.max(8);
                    let d = if wb == 15 { [31000usize, 32768][n % 2] } else { win + win / 2 + (n % 97) };
                    let data = match (n + o.seed as usize) % 4 {
                        0 | 1 => planted_at(d.min(32768), &mut r),
                        2 => { let mut v = gen::data("runs", 1500, &mut r); v.extend(gen::data("text", 1200, &mut r)); v.extend(planted_at(win + 17, &mut r)); v }
                        _ => gen::data("mixed", 4000, &mut r),
                    };
                    let id = format!("cfg-{}-l{}-{}-w{}", if zl { "z" } else { "r" }, lvl, STRATS[st].0, wb);
                    stream_comp_case(tr, &id, prop, &data, &cfg, &big_out_sched(), &mut r, "planted");
                    if zl && lvl >= 1 && n % 4 == 1 && prop != "C10" {
                        // the level is changed while the stream is being written (header already out)
                        let sch = Sched { chunk_pat: "fixed700".into(), outs: vec![1 << 20], flush_pct: 50, flush_set: vec![2, 7, 1],
                                          callback: false, max_points: 0 };
                        comp::RELEVEL_PCT.with(|c| c.set(30));
                        stream_comp_case(tr, &format!("{}-relevel", id), prop, &data, &cfg, &sch, &mut r, "planted");
                        comp::RELEVEL_PCT.with(|c| c.set(0));
                    }
                    if zl && n % 3 == 0 {
                        // the same configuration on an object that already compressed a stream and was reset
                        let cfg2 = Cfg { zlib: zl, level: lvl, strat: st, wbits: wb, api: "params_reused" };
                        stream_comp_case(tr, &format!("{}-reused", id), prop, &data, &cfg2, &big_out_sched(), &mut r, "planted");
                    }
                }
            }
        }
    }
    if prop == "C11" || prop == "C09" {
        // a small window fixed at creation, then a setter call (accepted for ZLibIgnoreChecksum, refused
        // for Zlib when the level would need a larger window)
        for wb in 8..=14u8 {
            for lvl in [1u8, 2, 6, 9] {
                for api in ["wsetI", "wsetZ"] {
                    let win = 1usize << wb;
                    let data = planted_at((win + win / 2 + 13).min(32768), &mut r);
                    let cfg = Cfg { zlib: true, level: lvl, strat: 0, wbits: wb, api };
                    stream_comp_case(tr, &format!("{}-w{}-l{}", api, wb, lvl), prop, &data, &cfg, &big_out_sched(), &mut r, "planted");
                }
            }
        }
    }
    if prop == "C11" || prop == "C09" {
        // the level is set again (to the same or another level) after input has been tokenised but before
        // the first block - and with it the header - has been written
        let mut k = 0usize;
        for wb in 12..=15u8 {
            for rep in 0..(if o.thorough { 8 } else { 4 }) {
                k += 1;
                let mut v: Vec<u8> = (0..6000).map(|_| 40 + r.gen_range(0..48u8)).collect();
                let head: Vec<u8> = v[..300].to_vec();
                v.extend_from_slice(&head);
                for _ in 0..3000 { v.push(40 + r.gen_range(0..48u8)); }
                let first = 9000 + rep * 13;
                let big = 1usize << 20;
                let cfg = Cfg { zlib: true, level: 1, strat: 0, wbits: wb, api: "params" };
                let sch = Sched { chunk_pat: "all".into(), outs: vec![big], flush_pct: 0, flush_set: vec![], callback: false, max_points: 0 };
                comp::SCRIPT.with(|s| *s.borrow_mut() = vec![(first.min(v.len()), big, 0), (v.len(), big, 4)]);
                comp::RELEVEL_PCT.with(|c| c.set(100));
                stream_comp_case(tr, &format!("relevel-early-w{}-{}", wb, k), prop, &v, &cfg, &sch, &mut r, "planted");
                comp::RELEVEL_PCT.with(|c| c.set(0));
            }
        }
    }
    if prop == "C11" {
        // flush points (call boundaries) followed by data that also occurs 1..7 bytes beyond the
        // declared window: whatever the match finder's bookkeeping looks like when a call resumes,
        // the first matches of the call must not reach past the window
        let mut k = 0usize;
        for wb in 9..=14u8 {
            for lvl in [1u8, 2, 6] {
                for st in [0usize, 1] {
                    for fi in [2usize, 1, 7] {
                        k += 1;
                        if !o.thorough && (k + o.seed as usize) % 3 != 0 { continue; }
                        let w = 1usize << wb;
                        // a 48-letter alphabet: blocks compress (no stored-block fallback, which would
                        // erase the matches) while repeated trigrams stay rare
                        let mut v: Vec<u8> = (0..(w + 800 + r.gen_range(0..300))).map(|_| 40 + r.gen_range(0..48u8)).collect();
                        let big = 1usize << 20;
                        let mut script = vec![(v.len(), big, fi)];
                        for j in 0..14usize {
                            let delta = [1usize, 2, 3, 4, 0, 5, 7][(j + k) % 7];
                            let src = v.len() - (w + delta);
                            for i in 0..12 {
                                let b = v[src + i];
                                v.push(b);
                            }
                            let fill = 600 + r.gen_range(0..800);
                            for _ in 0..fill { v.push(40 + r.gen_range(0..48u8)); }
                            script.push((12 + fill, big, fi));
                        }
                        let cfg = Cfg { zlib: true, level: lvl, strat: st, wbits: wb, api: "params" };
                        let sch = Sched { chunk_pat: "all".into(), outs: vec![big], flush_pct: 0, flush_set: vec![], callback: false, max_points: 0 };
                        comp::SCRIPT.with(|s| *s.borrow_mut() = script);
                        stream_comp_case(tr, &format!("winedge-w{}-l{}-{}-{}", wb, lvl, STRATS[st].0, comp::FLUSHES[fi].0), prop, &v, &cfg, &sch, &mut r, "winedge");
                    }
                }
            }
        }
    }
    if prop == "C09" {
        // window-bits values outside 8..15 are clamped, never a reason to drop or garble the framing
        for wb in [0u8, 1, 2, 7, 16, 17, 24, 31, 32, 100, 255] {
            for lvl in [0u8, 1, 6] {
                for st in [0usize, 2, 4] {
                    let cfg = Cfg { zlib: true, level: lvl, strat: st, wbits: wb, api: "params" };
                    let data = gen::data("mixed", 1500, &mut r);
                    stream_comp_case(tr, &format!("cfgw-z-l{}-{}-w{}", lvl, STRATS[st].0, wb), prop, &data, &cfg, &big_out_sched(), &mut r, "mixed");
                }
            }
        }
    }
    // flags API (CompressorOxide::new) incl. levels beyond 10 and negative-like defaults
    for zl in [true, false] {
        for lvl in [0u8, 1, 3, 6, 10, 11, 200] {
            for st in 0..5usize {
                let cfg = Cfg { zlib: zl, level: lvl, strat: st, wbits: 15, api: "flags" };
                let data = gen::data("mixed", 3000, &mut r);
                let id = format!("flg-{}-l{}-{}", if zl { "z" } else { "r" }, lvl, STRATS[st].0);
                stream_comp_case(tr, &id, prop, &data, &cfg, &big_out_sched(), &mut r, "mixed");
            }
        }
    }
    if prop == "C10" {
        bulk_streamcomp(o, tr, prop, &mut r, 300, 2500);
    }
    if prop == "C10" {
        // skewed symbol statistics: code lengths must be limited to 15 bits (checked by the acceptor)
        for (k, (lvl, st, n)) in [(6u8, 0usize, 40_000usize), (1, 0, 70_000), (9, 2, 30_000), (2, 1, 50_000), (6, 3, 25_000)].iter().enumerate() {
            let data = gen::data("fibo", *n, &mut r);
            let cfg = Cfg { zlib: k % 2 == 0, level: *lvl, strat: *st, wbits: 15, api: "params" };
            stream_comp_case(tr, &format!("fibo-{}-l{}-{}", n, lvl, STRATS[*st].0), prop, &data, &cfg, &big_out_sched(), &mut r, "fibo");
        }
    }
    if prop == "C10" || prop == "C02" {
        // runs and repeats that start exactly at / next to multiples of the 32 KiB dictionary size
        for (k, st) in [3usize, 0, 1, 4, 3, 2, 3].iter().enumerate() {
            for lvl in [1u8, 6] {
                let data = gen::data("wrapruns", 70_000 + k * 1000, &mut r);
                let cfg = Cfg { zlib: k % 2 == 0, level: lvl, strat: *st, wbits: if k == 4 { 9 } else { 15 }, api: "params" };
                stream_comp_case(tr, &format!("wrap-{}-l{}-{}", STRATS[*st].0, lvl, k), prop, &data, &cfg, &big_out_sched(), &mut r, "wrapruns");
            }
        }
    }
    if prop == "C10" || prop == "C09" || prop == "C02" {
        // configurations reached through the setters (set_compression_level[_raw], set_format_and_level)
        // from a compressor created without match finding: must be the configuration of that level
        let mut k = 0usize;
        for api in ["set0", "setH", "setN", "set9", "setR", "setI", "newI", "setZ", "setZR"] {
            for lvl in [1u8, 2, 6, 9, 10] {
                for zl in [true, false] {
                    if api.ends_with('I') && !zl { continue; }
                    k += 1;
                    if !o.thorough && (k + o.seed as usize) % 2 == 0 { continue; }
                    let x = gen::data("rand", 3000, &mut r);
                    let mut d = x.clone();
                    d.extend_from_slice(&x);
                    let cfg = Cfg { zlib: zl, level: lvl, strat: 0, wbits: 15, api };
                    let id = format!("xxset-{}-l{}-{}", api, lvl, zl);
                    tr.redundant = true;
                    stream_comp_case(tr, &id, prop, &d, &cfg, &big_out_sched(), &mut r, "xx");
                    tr.redundant = false;
                }
            }
        }
    }
    if prop == "C10" {
        // redundancy is exploited: X ++ X
        let sizes: Vec<usize> = if o.thorough { vec![1000, 2500, 5000, 16000, 30000] } else { vec![1000, 6000] };
        for &h in &sizes {
            for lvl in [1u8, 2, 6, 9] {
                for st in [0usize, 1, 4] {
                    for zl in [true, false] {
                        let x = gen::data("rand", h, &mut r);
                        let mut d = x.clone();
                        d.extend_from_slice(&x);
                        let cfg = Cfg { zlib: zl, level: lvl, strat: st, wbits: 15, api: "params" };
                        let id = format!("xx-{}-l{}-{}-{}", h, lvl, STRATS[st].0, zl);
                        tr.redundant = true;
                        stream_comp_case(tr, &id, prop, &d, &cfg, &big_out_sched(), &mut r, "xx");
                        tr.redundant = false;
                    }
                }
            }
        }
    }
}

fn main() {
    // quiet panic hook: panics in the code under test are data (logged as events)
    if std::env::var("DRV_PANICS").is_err() { std::panic::set_hook(Box::new(|_| {})); }
    let o = parse();
    // hang watchdog: a call into the code under test that does not return is a finding, not a
    // reason to block the check (exit code 3; the orchestrator reports the running case)
    std::thread::spawn(|| {
        let mut last = 0u64;
        let mut idle = 0u32;
        loop {
            std::thread::sleep(std::time::Duration::from_secs(1));
            let h = tr::HEARTBEAT.load(std::sync::atomic::Ordering::Relaxed);
            if h == last { idle += 1; } else { idle = 0; last = h; }
            if idle >= 40 {
                eprintln!("HANG: no progress for 40 s inside the code under test");
                std::process::exit(3);
            }
        }
    });
    let name = o.scenario.clone();
    let mut tr = Tr::create(&o.out, &name, o.shards);
    tr.only = o.only.clone();
    match name.as_str() {
        "oneshot" => scn_oneshot(&o, &mut tr),
        "huff" => huff::scn_huff(&o, &mut tr, "C10"),
        "configs_c10" => scn_configs(&o, &mut tr, "C10"),
        "configs_c11" => scn_configs(&o, &mut tr, "C11"),
        "configs_c09" => scn_configs(&o, &mut tr, "C09"),
        "streamcomp" => scn_streamcomp(&o, &mut tr, "C02"),
        "flushes" => scn_flushes(&o, &mut tr, "C12"),
        "deflate_protocol" => scn_deflate_protocol(&o, &mut tr, "C14"),
        "deflate_protocol_c12" => scn_deflate_protocol(&o, &mut tr, "C12"),
        "capi" => capi::scn_capi(&o, &mut tr, "C17"),
        "capi_c06" => capi::scn_capi(&o, &mut tr, "C06"),
        "capi_c16" => capi::scn_capi(&o, &mut tr, "C16"),
        "bound" => capi::scn_bound(&o, &mut tr, "C15"),
        "reset" => reset::scn_reset(&o, &mut tr, "C18"),
        "snapshots" => reset::scn_snapshots(&o, &mut tr, "C19"),
        "snapshots_c16" => reset::scn_snapshots(&o, &mut tr, "C16"),
        "adler_stream" => scn_adler_stream(&o, &mut tr, "C16"),
        "checksums" => cks::scn_checksums(&o, &mut tr, "C16"),
        "genstreams" => scn_dec::scn_genstreams(&o, &mut tr, "C03"),
        "genstreams_c04" => scn_dec::scn_genstreams(&o, &mut tr, "C04"),
        "entrypoints" => scn_dec::scn_entrypoints(&o, &mut tr, "C03"),
        "zlibframe" => scn_dec::scn_zlibframe(&o, &mut tr, "C09"),
        "trailing" => scn_dec::scn_trailing(&o, &mut tr, "C06"),
        "schedules" => scn_dec::scn_schedules(&o, &mut tr, "C07"),
        "invalid" => scn_dec::scn_invalid(&o, &mut tr, "C04"),
        "total" => scn_dec::scn_total(&o, &mut tr, "C05"),
        "window" => scn_dec::scn_window(&o, &mut tr, "C08"),
        "inflate_protocol" => scn_dec::scn_inflate_protocol(&o, &mut tr, "C13"),
        _ => {
            eprintln!("unknown scenario {}", name);
            std::process::exit(2);
        }
    }
    let mut s = tr.finish();
    s["scenario"] = json!(name);
    s["seed"] = json!(o.seed);
    println!("{}", s);
}

/// Cheap exploration of streaming compression: many (data, configuration, schedule) triples are
/// executed; only a case the crate's own round trip finds wrong (or that panicked / broke a count)
/// is written out, where TLC judges it like any other.
fn bulk_streamcomp(o: &Opts, tr: &mut Tr, prop: &str, r: &mut rand::rngs::StdRng, n_quick: usize, n_thorough: usize) {
    let nbulk = if o.thorough { n_thorough } else { n_quick };
    for bi in 0..nbulk {
        let kind = ["litmatch", "lazycut", "mixed", "text", "sparse3", "alpha4", "runs", "period3", "zeros", "wrapruns", "lazycut",
                    "deep15", "deepdist"][bi % 13];
        let size = [60_000usize, 130_000, 200_000, 90_000, 32_768, 65_536, 33_000][bi % 7] + r.gen_range(0..5000) * (bi % 3);
        let data = gen::data(kind, size, r);
        let lvl = [4u8, 5, 6, 7, 8, 9, 10, 1, 2, 3, 0][bi % 11];
        let cfg = Cfg { zlib: bi % 2 == 1, level: lvl, strat: [0usize, 0, 3, 1, 4, 2, 0, 3][bi % 8], wbits: [15u8, 15, 15, 12, 9][bi % 5], api: "params" };
        let sch = Sched { chunk_pat: ["fixed500", "rand", "fixed4096", "fixed77"][bi % 4].into(),
                          outs: [vec![128], vec![64, 500], vec![1000, 85195], vec![7, 4096, 100000]][(bi / 2) % 4].clone(),
                          flush_pct: [0, 0, 3, 10][bi % 4], flush_set: vec![2, 3, 7, 1], callback: false, max_points: 0 };
        tr.hold();
        let sus = stream_comp_case(tr, &format!("scbulk-{}-{}-{}-l{}", bi, kind, size, lvl), prop, &data, &cfg, &sch, r, kind);
        tr.release(sus);
    }
}

/// Cheap exploration of call sequences built around the real thresholds of the block writer: chunk
/// sizes that land on / next to the internal block cut (31 745 bytes of poorly compressible
/// input), empty chunks, output buffers from one byte to plenty, every flush mode at every call.
/// Only cases the harness finds suspicious (final round trip, or a flush point whose prefix does
/// not decode to all input so far) are written out; TLC judges those.
fn bulk_cut_schedules(o: &Opts, tr: &mut Tr, prop: &str, r: &mut rand::rngs::StdRng, n_quick: usize, n_thorough: usize) {
    const CUT: usize = 31_745;
    let n = if o.thorough { n_thorough } else { n_quick };
    for i in 0..n {
        let (lvl, st, kind) = [(0u8, 0usize, "rand"), (1, 0, "rand"), (6, 0, "rand"), (6, 2, "rand"), (9, 4, "hibytes"), (6, 0, "text"),
                               (2, 3, "runs"), (1, 0, "sparse3"), (4, 0, "litmatch")][i % 9];
        let total = 40_000 + r.gen_range(0..60_000usize);
        let data = gen::data(kind, total, r);
        let big = 1usize << 20;
        let mut script: Vec<(usize, usize, usize)> = Vec::new();
        let mut offered = 0usize;
        for _ in 0..r.gen_range(2..9) {
            let to_cut = CUT - (offered % CUT);
            let add = match r.gen_range(0..8) {
                0 | 1 => 0,
                2 => 1,
                3 => r.gen_range(1..300),
                4 | 5 => (to_cut as i64 + r.gen_range(-1..=1i64)).max(0) as usize,
                6 => to_cut + r.gen_range(2..400),
                _ => r.gen_range(300..20_000),
            };
            let out = [1usize, 50, 3000, 40_000, big, big][r.gen_range(0..6)];
            let fi = [0usize, 0, 2, 3, 1, 7, 6, 5, 2][r.gen_range(0..9)];
            script.push((add, out, fi));
            offered += add;
        }
        let cfg = Cfg { zlib: i % 2 == 0, level: lvl, strat: st, wbits: 15, api: "params" };
        let sch = Sched { chunk_pat: "all".into(), outs: vec![big], flush_pct: 0, flush_set: vec![], callback: false, max_points: 8 };
        comp::SCRIPT.with(|s| *s.borrow_mut() = script);
        tr.hold();
        let sus = stream_comp_case(tr, &format!("cutsched-{}-l{}-{}-{}", i, lvl, STRATS[st].0, kind), prop, &data, &cfg, &sch, r, kind);
        tr.release(sus);
    }
}

/// C02: streaming compression under arbitrary schedules and configurations.
fn scn_streamcomp(o: &Opts, tr: &mut Tr, prop: &str) {
    let mut r = gen::rng(o.seed, 222);
    let kinds = ["text", "rand", "alpha4", "zeros", "period7", "runs", "mixed", "xx", "planted300", "sparse3"];
    let outsets: [Vec<usize>; 6] = [
        vec![1], vec![1, 2, 5], vec![5, 30, 100], vec![1, 30, 85195, 85196, 200000], vec![1 << 20], vec![2, 3, 64, 4096],
    ];
    let n = if o.thorough { 600 } else { 150 };
    for i in 0..n {
        let kind = kinds[(i + o.seed as usize) % kinds.len()];
        let size = match i % 9 { 0 => 0, 1 => r.gen_range(1..4), 2 => r.gen_range(4..300), 3 | 4 => r.gen_range(300..3000),
                                 5 => r.gen_range(3000..9000), 6 => 258 + r.gen_range(0..3), _ => r.gen_range(0..1500) };
        let data = gen::data(kind, size, &mut r);
        let lvl = [0u8, 1, 2, 3, 4, 6, 9, 10][r.gen_range(0..8)];
        let st = r.gen_range(0..5);
        let wb = [15u8, 15, 15, 8, 9, 12, 14][r.gen_range(0..7)];
        let cfg = Cfg { zlib: r.gen(), level: lvl, strat: st, wbits: wb, api: if i % 5 == 0 { "flags" } else { "params" } };
        let cb = i % 7 == 3;
        let sch = Sched {
            chunk_pat: ["rand", "fixed1", "all", "rand", "fixed7", "rand"][i % 6].into(),
            outs: outsets[(i / 2) % outsets.len()].clone(),
            flush_pct: [0, 10, 30, 60][i % 4],
            flush_set: vec![1, 2, 3, 5, 6, 7],
            callback: cb,
            max_points: 0,
        };
        let id = format!("sc{}-{}-{}-l{}-{}-w{}-{}{}", i, kind, size, lvl, STRATS[st].0, wb, sch.chunk_pat, if cb { "-cb" } else { "" });
        stream_comp_case(tr, &id, prop, &data, &cfg, &sch, &mut r, kind);
    }
    // large inputs reaching the real thresholds (LZ buffer full, > 31 KiB incompressible, > 32 KiB history),
    // cheap for the acceptor (long matches / stored blocks)
    let bigs: Vec<(&str, usize, u8)> = if o.thorough {
        vec![("zeros", 200_000, 6), ("rand", 100_000, 0), ("period1000", 150_000, 1), ("runs", 120_000, 9), ("rand", 70_000, 6),
             ("text", 90_000, 6), ("mixed", 200_000, 2), ("sparse3", 66_000, 1)]
    } else {
        vec![("zeros", 100_000, 6), ("rand", 70_000, 0), ("period1000", 90_000, 1), ("rand", 40_000, 6)]
    };
    // literal-heavy data with matches, more than one LZ block, lazy parsing, tiny output buffers:
    // calls are suspended inside the LZ loops with a deferred match pending
    let lazies: Vec<(&str, usize, u8, usize)> = if o.thorough {
        vec![("litmatch", 300_000, 6, 128), ("mixed", 250_000, 9, 500), ("litmatch", 200_000, 4, 64), ("litmatch", 200_000, 9, 1000),
             ("alpha4", 120_000, 7, 1000), ("text", 100_000, 1, 100), ("litmatch", 150_000, 2, 200)]
    } else {
        vec![("litmatch", 200_000, 6, 128), ("mixed", 150_000, 9, 500), ("litmatch", 140_000, 4, 300)]
    };
    for (li, (kind, size, lvl, ol)) in lazies.iter().enumerate() {
        let data = gen::data(kind, *size, &mut r);
        let cfg = Cfg { zlib: li % 2 == 1, level: *lvl, strat: 0, wbits: 15, api: "params" };
        let sch = Sched { chunk_pat: "fixed500".into(), outs: vec![*ol], flush_pct: 0, flush_set: vec![], callback: false, max_points: 0 };
        stream_comp_case(tr, &format!("sclazy-{}-{}-l{}-o{}", kind, size, lvl, ol), prop, &data, &cfg, &sch, &mut r, kind);
    }
    bulk_streamcomp(o, tr, prop, &mut r, 600, 5000);
    bulk_cut_schedules(o, tr, prop, &mut r, 400, 4000);
    // stored route: a call whose last byte triggers the internal 31 KiB block cut, with a flush
    // requested in the same call and an output buffer smaller than the block
    let mut ti = 0;
    for t in [31744usize, 31745, 31746, 63489, 63490, 95234] {
        for fi in [2usize, 3, 4, 1] {
            for ol in [100usize, 1024, 4096] {
                ti += 1;
                if !o.thorough && (ti + o.seed as usize) % 3 != 0 { continue; }
                let data = gen::data("rand", t + if fi == 4 { 0 } else { 777 }, &mut r);
                let cfg = Cfg { zlib: ti % 2 == 0, level: 0, strat: 0, wbits: 15, api: "params" };
                let split = if ti % 4 == 0 { format!("split{}", r.gen_range(1..t)) } else { format!("first{}", t) };
                let sch = Sched { chunk_pat: split, outs: vec![ol], flush_pct: 100, flush_set: vec![fi.min(3)], callback: false, max_points: 0 };
                stream_comp_case(tr, &format!("scthr-{}-{}-o{}-{}", t, comp::FLUSHES[fi].0, ol, ti), prop, &data, &cfg, &sch, &mut r, "rand");
            }
        }
    }
    for (bi, (kind, size, lvl)) in bigs.iter().enumerate() {
        let data = gen::data(kind, *size, &mut r);
        let cfg = Cfg { zlib: bi % 2 == 0, level: *lvl, strat: 0, wbits: 15, api: "params" };
        let sch = Sched { chunk_pat: "rand".into(), outs: vec![1000, 85195, 85196, 100000, 7], flush_pct: 5,
                          flush_set: vec![2, 3, 7], callback: bi % 3 == 2, max_points: 0 };
        stream_comp_case(tr, &format!("scbig-{}-{}-l{}", kind, size, lvl), prop, &data, &cfg, &sch, &mut r, kind);
    }
}

/// C16: the compressor's running checksum under suspended calls (big input slices, small
/// output buffers: a call consumes only a prefix of what it was offered).
fn scn_adler_stream(o: &Opts, tr: &mut Tr, prop: &str) {
    let mut r = gen::rng(o.seed, 1616);
    let n = if o.thorough { 40 } else { 10 };
    for i in 0..n {
        let kind = ["rand", "text", "zeros", "mixed", "litmatch"][i % 5];
        let size = [70_000usize, 140_000, 40_000, 100_000][i % 4];
        let data = gen::data(kind, size, &mut r);
        let cfg = Cfg { zlib: true, level: [0u8, 1, 6, 9][i % 4], strat: 0, wbits: 15, api: "params" };
        let sch = Sched { chunk_pat: ["all", "fixed50000", "rand"][i % 3].into(), outs: [vec![1000], vec![128, 4096], vec![30000]][i % 3].clone(),
                          flush_pct: [0, 5][i % 2], flush_set: vec![2, 3], callback: false, max_points: 0 };
        stream_comp_case(tr, &format!("adl-{}-{}-{}", i, kind, size), prop, &data, &cfg, &sch, &mut r, kind);
    }
    // the running checksum of compressors whose format / level were set through the setters
    let mut k = 0usize;
    for api in ["set0", "setH", "setN", "set9", "setR", "setI", "newI", "setZ", "setZR"] {
        for lvl in [0u8, 1, 6, 9] {
            k += 1;
            if !o.thorough && (k + o.seed as usize) % 2 == 0 { continue; }
            if lvl == 0 && !(api == "setZ" || api == "setZR" || api == "setI" || api == "newI") { continue; }
            let data = gen::data(["text", "rand", "mixed"][k % 3], 2500 + k * 37, &mut r);
            let cfg = Cfg { zlib: true, level: lvl, strat: 0, wbits: 15, api };
            let sch = Sched { chunk_pat: ["all", "fixed700", "rand"][k % 3].into(), outs: vec![1 << 16], flush_pct: [0, 20][k % 2],
                              flush_set: vec![2], callback: false, max_points: 0 };
            stream_comp_case(tr, &format!("adlset-{}-l{}", api, lvl), prop, &data, &cfg, &sch, &mut r, "mixed");
        }
    }
}

/// C12: flush points.
fn scn_flushes(o: &Opts, tr: &mut Tr, prop: &str) {
    let mut r = gen::rng(o.seed, 1212);
    let kinds = ["text", "rand", "alpha4", "zeros", "runs", "mixed", "xx", "planted300"];
    let n = if o.thorough { 400 } else { 120 };
    for i in 0..n {
        let kind = kinds[(i + o.seed as usize) % kinds.len()];
        let size = match i % 5 { 0 => r.gen_range(1..50), 1 => r.gen_range(50..600), 2 => r.gen_range(600..3000), 3 => r.gen_range(3000..8000), _ => r.gen_range(0..1000) };
        let data = gen::data(kind, size, &mut r);
        let lvl = [0u8, 1, 2, 6, 9][r.gen_range(0..5)];
        let st = [0usize, 0, 0, 1, 2, 3, 4][r.gen_range(0..7)];
        let cfg = Cfg { zlib: r.gen(), level: lvl, strat: st, wbits: 15, api: "params" };
        let sch = Sched {
            chunk_pat: ["rand", "fixed50", "rand", "fixed300"][i % 4].into(),
            outs: [vec![1 << 20], vec![100000], vec![1, 40, 100000], vec![200000, 3]][i % 4].clone(),
            flush_pct: [40, 70, 100][i % 3],
            flush_set: [vec![2], vec![3], vec![1], vec![1, 2, 3, 5, 6, 7], vec![7, 2], vec![3, 0]][i % 6].clone(),
            callback: i % 9 == 4,
            max_points: 6,
        };
        let id = format!("fl{}-{}-{}-l{}-{}", i, kind, size, lvl, STRATS[st].0);
        stream_comp_case(tr, &id, prop, &data, &cfg, &sch, &mut r, kind);
    }
    // every strategy x flush kind on data with runs / repeats straddling the flush points
    let mut k = 0;
    for st in 0..5usize {
        for fi in [1usize, 2, 3, 5, 6, 7] {
            for kind in ["runs", "zeros", "period3", "text"] {
                for lvl in [1u8, 6] {
                    k += 1;
                    if !o.thorough && (k + o.seed as usize) % 2 == 0 { continue; }
                    let data = gen::data(kind, 400 + r.gen_range(0..1500), &mut r);
                    let cfg = Cfg { zlib: k % 2 == 0, level: lvl, strat: st, wbits: 15, api: "params" };
                    let sch = Sched { chunk_pat: ["fixed97", "rand", "fixed300"][k % 3].into(), outs: vec![1 << 20], flush_pct: 100,
                                      flush_set: vec![fi], callback: false, max_points: 4 };
                    stream_comp_case(tr, &format!("flx-{}-{}-{}-l{}-{}", STRATS[st].0, comp::FLUSHES[fi].0, kind, lvl, k), prop, &data, &cfg, &sch, &mut r, kind);
                }
            }
        }
    }
    // the very first call is a flush with no data at all (the zlib header must still come first, once)
    for (k, fi) in [2usize, 3, 1, 7, 6, 5].iter().enumerate() {
        for lvl in [0u8, 1, 6] {
            let data = gen::data("text", 300 + k * 50, &mut r);
            let cfg = Cfg { zlib: true, level: lvl, strat: 0, wbits: 15, api: "params" };
            let sch = Sched { chunk_pat: "first0".into(), outs: vec![[1usize << 20, 3, 100000][k % 3]], flush_pct: 100,
                              flush_set: vec![*fi], callback: false, max_points: 3 };
            stream_comp_case(tr, &format!("fl0-{}-l{}", comp::FLUSHES[*fi].0, lvl), prop, &data, &cfg, &sch, &mut r, "text");
        }
    }
    // a flush requested by a call whose last input byte also triggers an internal block cut, into an
    // output buffer too small for the block: the flush cannot happen in that call; it is asked for
    // again (with or without a draining call in between) and must then take place
    {
        let mut k = 0usize;
        for (lvl, st, kind) in [(0u8, 0usize, "rand"), (6, 2, "rand"), (1, 0, "rand"), (6, 0, "rand"), (9, 4, "hibytes")] {
            for fi in [2usize, 3, 1] {
                for delta in [-2i64, -1, 0, 1, 2] {
                    for variant in 0..4usize {
                        k += 1;
                        let n0 = (31745i64 + delta) as usize;
                        let data = gen::data(kind, n0 + 3000, &mut r);
                        let small = [50usize, 1, 3000, 50][variant];
                        let big = 1usize << 20;
                        let script: Vec<(usize, usize, usize)> = match variant {
                            0 => vec![(n0, small, fi), (0, big, fi), (0, big, fi), (1500, big, fi)],
                            1 => vec![(n0, small, fi), (0, 40_000, 0), (0, big, fi), (0, big, fi)],
                            2 => vec![(n0, small, fi), (0, small, fi), (0, small, fi), (0, big, fi), (0, big, fi), (1500, big, 0), (0, big, fi)],
                            _ => vec![(n0 - 100, big, 0), (100, small, fi), (0, big, fi), (0, big, fi), (700, big, fi), (0, big, fi)],
                        };
                        let cfg = Cfg { zlib: k % 2 == 0, level: lvl, strat: st, wbits: 15, api: "params" };
                        let sch = Sched { chunk_pat: "all".into(), outs: vec![big], flush_pct: 0, flush_set: vec![], callback: false, max_points: 4 };
                        let sample = delta == 0 && (variant + fi + k / 60) % 4 == 0;
                        comp::SCRIPT.with(|s| *s.borrow_mut() = script);
                        if sample {
                            stream_comp_case(tr, &format!("cutfl-l{}-{}-{}-d{}-v{}", lvl, STRATS[st].0, comp::FLUSHES[fi].0, delta, variant), prop, &data, &cfg, &sch, &mut r, kind);
                        } else {
                            tr.hold();
                            let sus = stream_comp_case(tr, &format!("cutflb-l{}-{}-{}-d{}-v{}", lvl, STRATS[st].0, comp::FLUSHES[fi].0, delta, variant), prop, &data, &cfg, &sch, &mut r, kind);
                            tr.release(sus);
                        }
                    }
                }
            }
        }
    }
    bulk_cut_schedules(o, tr, prop, &mut r, 400, 4000);
    // call sequences around a Full flush, on input that repeats itself across the flush point: a Full
    // flush right after another flush with no input in between, a Full flush whose output does not fit
    // and is collected by a later call, two Full flushes in a row, a Full flush before any input
    {
        let big = 1usize << 20;
        let mut k = 0usize;
        for lvl in [1u8, 2, 6, 9] {
            for pre in [2usize, 1, 7, 0, 3] {
                for shape in 0..4usize {
                    k += 1;
                    if !o.thorough && (k + o.seed as usize) % 2 == 0 { continue; }
                    let seg = 400 + r.gen_range(0..400usize);
                    let pat: Vec<u8> = (0..seg).map(|_| 40 + r.gen_range(0..48u8)).collect();
                    let mut data = Vec::new();
                    for _ in 0..5 { data.extend_from_slice(&pat); }
                    let script: Vec<(usize, usize, usize)> = match shape {
                        // some flush, then Full with no new input, then the repeat
                        0 => vec![(seg, big, pre), (0, big, 3), (seg, big, 0), (seg, big, 2)],
                        // Full into a buffer that is too small, collected later, then the repeat
                        1 => vec![(seg, 20 + r.gen_range(0..60), 3), (0, big, [0usize, 3, 2][k % 3]), (seg, big, 0), (seg, big, 3), (0, 7, 3), (0, big, 0)],
                        // input and Full in one call after an earlier flush, twice
                        2 => vec![(seg, big, pre), (seg, big, 3), (0, big, 3), (seg, big, pre), (seg, big, 3)],
                        // Full before any input, then flush kinds interleaved
                        _ => vec![(0, big, 3), (seg, big, pre), (0, big, 3), (0, big, pre), (seg, big, 0)],
                    };
                    let cfg = Cfg { zlib: k % 2 == 0, level: lvl, strat: [0usize, 0, 1, 4][k % 4], wbits: 15, api: "params" };
                    let sch = Sched { chunk_pat: "all".into(), outs: vec![big], flush_pct: 0, flush_set: vec![], callback: false, max_points: 5 };
                    comp::SCRIPT.with(|s| *s.borrow_mut() = script);
                    stream_comp_case(tr, &format!("fullseq-l{}-{}-s{}-{}", lvl, comp::FLUSHES[pre].0, shape, k), prop, &data, &cfg, &sch, &mut r, "repeat");
                }
            }
        }
    }
    // history > 32 KiB before a full flush
    for (bi, (kind, size)) in [("period900", 80_000usize), ("zeros", 70_000), ("runs", 50_000)].iter().enumerate() {
        let data = gen::data(kind, *size, &mut r);
        let cfg = Cfg { zlib: bi % 2 == 0, level: 6, strat: 0, wbits: 15, api: "params" };
        let sch = Sched { chunk_pat: "rand".into(), outs: vec![200000], flush_pct: 30, flush_set: vec![3, 2], callback: false, max_points: 3 };
        stream_comp_case(tr, &format!("flbig-{}-{}", kind, size), prop, &data, &cfg, &sch, &mut r, kind);
    }
}

/// C14: deflate() wrapper protocol.
fn scn_deflate_protocol(o: &Opts, tr: &mut Tr, prop: &str) {
    use miniz_oxide::MZFlush;
    let mut r = gen::rng(o.seed, 1414);
    let kinds = ["text", "rand", "zeros", "mixed", "runs"];
    let n = if o.thorough { 800 } else { 250 };
    for i in 0..n {
        let kind = kinds[i % kinds.len()];
        let size = match i % 6 { 0 => 0, 1 => r.gen_range(1..5), 2 => r.gen_range(5..400), 3 => r.gen_range(400..4000), 4 => r.gen_range(0..100), _ => r.gen_range(4000..12000) };
        let data = gen::data(kind, size, &mut r);
        let cfg = Cfg { zlib: r.gen(), level: [0u8, 1, 6, 9][r.gen_range(0..4)], strat: 0, wbits: 15, api: "params" };
        let ncalls = r.gen_range(0..14);
        let mut calls = Vec::new();
        let misuse_ok = i % 4 == 0; // allow non-Finish after Finish in some cases
        let mut fin = false;
        for _ in 0..ncalls {
            let ch = match r.gen_range(0..5) { 0 => 0, 1 => 1, 2 => r.gen_range(0..50), _ => size };
            let ol = match r.gen_range(0..8) { 0 => 0, 1 => 1, 2 => 5, 3 => r.gen_range(1..10), 4 => r.gen_range(10..200), _ => 200000 };
            let mut fl = match r.gen_range(0..10) { 0 | 1 => MZFlush::Sync, 2 => MZFlush::Full, 3 | 4 => MZFlush::Finish, 5 => MZFlush::Partial, _ => MZFlush::None };
            if fin && !misuse_ok { fl = MZFlush::Finish; }
            if fl == MZFlush::Finish && ol > 0 { fin = true; }
            calls.push((ch, ol, fl));
        }
        let fo = [1usize, 5, 64, 200000][i % 4];
        deflate_case(tr, &format!("dp{}-{}-{}", i, kind, size), prop, &data, &cfg, &calls, fo, kind);
    }
    // output parked by a flush into a tiny buffer, a Finish call that can only hand out (part of) what is
    // parked, then calls that are not Finish: the Finish request has been made and must be remembered
    let mut k = 0usize;
    for lvl in [0u8, 1, 6] {
        for f1 in [MZFlush::Sync, MZFlush::Full, MZFlush::Partial, MZFlush::None] {
            for f3 in [MZFlush::None, MZFlush::Sync, MZFlush::Full] {
                k += 1;
                if !o.thorough && (k + o.seed as usize) % 2 == 0 { continue; }
                let data = gen::data("rand", 300 + k, &mut r);
                let cfg = Cfg { zlib: k % 2 == 0, level: lvl, strat: 0, wbits: 15, api: "params" };
                let small = [4usize, 1, 9][k % 3];
                let calls = vec![(300usize, small, f1), (0, small.min(3), MZFlush::Finish), (0, 100, f3), (k % 7, 100, f3), (0, 200000, MZFlush::Finish)];
                deflate_case(tr, &format!("dpark-l{}-{}-{}-{}", lvl, comp::mzflush_name(f1), comp::mzflush_name(f3), k), prop, &data, &cfg, &calls, 200000, "rand");
            }
        }
    }
}
