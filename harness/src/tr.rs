//! ndjson trace writer, sharded by case (each case goes to the currently smallest shard).
use serde_json::{json, Value};
use std::fs::File;
use std::sync::atomic::{AtomicU64, Ordering};

/// Heartbeat for the hang watchdog: bumped on every event.
pub static HEARTBEAT: AtomicU64 = AtomicU64::new(0);
use std::io::{BufWriter, Write};

pub struct Tr {
    w: Vec<BufWriter<File>>,
    sz: Vec<usize>,
    cur: usize,
    pub events: usize,
    pub cases: usize,
    pub paths: Vec<String>,
    /// optional filter: only emit the case with this id (replay)
    pub only: Option<String>,
    muted: bool,
    /// mark `compressed` events of the current case as coming from a twice-repeated input
    pub redundant: bool,
    dir: String,
    /// events of a case being held back until the harness decides whether to keep it
    held: Option<Vec<Vec<u8>>>,
    pub bulk_run: usize,
    pub bulk_kept: usize,
    /// set by the drivers when a single call already looks wrong (count beyond what was granted,
    /// byte outside the region touched, panic): a held case is then always written out
    pub suspect: bool,
}

impl Tr {
    pub fn create(dir: &str, name: &str, shards: usize) -> Tr {
        let mut w = Vec::new();
        let mut paths = Vec::new();
        for k in 0..shards.max(1) {
            let p = format!("{}/{}.{}.ndjson", dir, name, k);
            w.push(BufWriter::new(File::create(&p).expect("create trace")));
            paths.push(p);
        }
        let n = w.len();
        Tr { w, sz: vec![0; n], cur: 0, events: 0, cases: 0, paths, only: None, muted: false, redundant: false, dir: dir.to_string(), held: None, bulk_run: 0, bulk_kept: 0, suspect: false }
    }
    pub fn ev(&mut self, v: Value) {
        HEARTBEAT.fetch_add(1, Ordering::Relaxed);
        if self.muted {
            return;
        }
        let s = serde_json::to_vec(&v).unwrap();
        if let Some(h) = self.held.as_mut() {
            h.push(s);
            return;
        }
        self.sz[self.cur] += s.len() + 1;
        self.w[self.cur].write_all(&s).unwrap();
        self.w[self.cur].write_all(b"\n").unwrap();
        self.events += 1;
        if self.sz.iter().sum::<usize>() > (3usize << 30) {
            // runaway trace: something in the code under test does not terminate
            eprintln!("RUNAWAY: trace exceeds 3 GiB");
            std::process::exit(4);
        }
    }
    pub fn case(&mut self, id: &str, prop: &str, extra: Value) {
        HEARTBEAT.fetch_add(1, Ordering::Relaxed);
        let _ = std::fs::write(format!("{}/current_case", self.dir), id);
        if let Some(o) = &self.only {
            self.muted = o != id;
            if self.muted {
                return;
            }
        }
        let mut best = 0;
        for k in 0..self.sz.len() {
            if self.sz[k] < self.sz[best] {
                best = k;
            }
        }
        self.cur = best;
        let mut v = json!({"ev": "case", "id": id, "prop": prop});
        if let (Some(o), Some(e)) = (v.as_object_mut(), extra.as_object()) {
            for (k, x) in e {
                o.insert(k.clone(), x.clone());
            }
        }
        if self.held.is_none() {
            self.cases += 1;
        }
        // crash marker: which case was running if the process dies (guard-page fault, abort)
        let _ = std::fs::write(format!("{}/current_case", self.dir), id);
        self.ev(v);
    }
    /// Hold back the events of the next case(s) until `release`.
    pub fn hold(&mut self) {
        self.suspect = false;
        self.held = Some(Vec::new());
    }
    /// Write the held events (keep = true) or drop them. Cheap exploration runs many cases and
    /// keeps only a sample plus every case the harness finds suspicious; TLC judges what is kept.
    pub fn release(&mut self, keep: bool) {
        let keep = keep || self.suspect;
        self.suspect = false;
        self.bulk_run += 1;
        if let Some(h) = self.held.take() {
            if keep && !self.muted && self.bulk_kept < 24 {
                self.bulk_kept += 1;
                self.cases += 1;
                for s in h {
                    self.sz[self.cur] += s.len() + 1;
                    self.w[self.cur].write_all(&s).unwrap();
                    self.w[self.cur].write_all(b"\n").unwrap();
                    self.events += 1;
                }
            }
        }
    }
    /// For exploration loops that write suspicious cases directly: at most 24 per run (a defect that
    /// shows in hundreds of cases does not need hundreds of traces).
    pub fn take_suspicious_slot(&mut self) -> bool {
        if self.bulk_kept < 24 {
            self.bulk_kept += 1;
            true
        } else {
            false
        }
    }
    pub fn finish(mut self) -> Value {
        for w in self.w.iter_mut() {
            w.flush().unwrap();
        }
        json!({"cases": self.cases, "events": self.events, "shards": self.paths, "bytes": self.sz,
               "bulk_run": self.bulk_run, "bulk_kept": self.bulk_kept})
    }
}

pub fn bytes(b: &[u8]) -> Value {
    Value::Array(b.iter().map(|x| Value::from(*x)).collect())
}
