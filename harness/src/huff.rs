//! Huffman code construction of the compressor, driven directly through the verif_huffman hook:
//! `optimize_table` for every small count vector under small limits (the length limiter runs all
//! the time there), structured full-size count vectors, and whole dynamic blocks whose code-length
//! sequences are built to sit on the edges of the header's run-length packer.
use crate::gen;
use crate::tr::{bytes, Tr};
use crate::Opts;
use miniz_oxide::deflate::core::verif_huffman as vh;
use rand::Rng;
use serde_json::{json, Value};
use std::panic::{catch_unwind, AssertUnwindSafe};

fn u16s(v: &[u16]) -> Value {
    Value::Array(v.iter().map(|x| Value::from(*x)).collect())
}

fn table_event(tr: &mut Tr, counts: &[u16], limit: usize, model: bool) {
    let r = catch_unwind(AssertUnwindSafe(|| vh::optimize_table(counts, limit)));
    match r {
        Ok((sizes, codes)) => {
            tr.ev(json!({"ev": "huff", "counts": u16s(counts), "limit": limit, "model": model,
                         "sizes": bytes(&sizes[..counts.len()]), "codes": u16s(&codes[..counts.len()])}));
        }
        Err(_) => tr.ev(json!({"ev": "panic", "where": "optimize_table"})),
    }
}

fn block_event(tr: &mut Tr, lit: &[u16], dist: &[u16]) {
    // start_dynamic_block itself sets the end-of-block count to exactly one
    let mut lit = lit.to_vec();
    lit[256] = 1;
    let lit = &lit[..];
    let mut out = vec![0u8; 2048];
    let r = catch_unwind(AssertUnwindSafe(|| vh::dynamic_block(lit, dist, &mut out)));
    match r {
        Ok(Some((n, ls, ds))) => {
            let p: Vec<u8> = (0..256usize).filter(|&b| b < lit.len() && lit[b] != 0).map(|b| b as u8).collect();
            tr.ev(json!({"ev": "stream", "z": bytes(&out[..n]), "p": bytes(&p), "zlib": false, "mode": "verify"}));
            tr.ev(json!({"ev": "huff_block", "lit_counts": u16s(lit), "dist_counts": u16s(dist),
                         "lsizes": bytes(&ls[..288]), "dsizes": bytes(&ds[..32])}));
        }
        Ok(None) => tr.ev(json!({"ev": "huff_block_failed"})),
        Err(_) => tr.ev(json!({"ev": "panic", "where": "start_dynamic_block"})),
    }
}

/// counts that make `lens` the (unique) optimal code lengths: 2^(15 - len); complete codes only
fn counts_for_lens(lens: &[u8]) -> Vec<u16> {
    lens.iter().map(|&l| if l == 0 { 0 } else { 1u16 << (15 - l as u32) }).collect()
}

/// a complete code over `n` symbols (n >= 2) as a multiset of lengths <= 15, shaped by `r`
fn random_complete_lens(n: usize, r: &mut rand::rngs::StdRng) -> Vec<u8> {
    // start from one code of length 0 (the whole space) and split random leaves
    let mut leaves: Vec<u8> = vec![1, 1];
    while leaves.len() < n {
        let cands: Vec<usize> = (0..leaves.len()).filter(|&i| leaves[i] < 15).collect();
        if cands.is_empty() { break; }
        // bias: split the deepest leaf half of the time (long chains), a random one otherwise
        let i = if r.gen_range(0..2) == 0 { *cands.iter().max_by_key(|&&i| leaves[i]).unwrap() } else { cands[r.gen_range(0..cands.len())] };
        let l = leaves[i] + 1;
        leaves[i] = l;
        leaves.push(l);
    }
    leaves
}

pub fn scn_huff(o: &Opts, tr: &mut Tr, prop: &str) {
    let mut r = gen::rng(o.seed, 909);
    // A. every count vector over a small alphabet of counts, every feasible small limit
    let cset: &[u16] = if o.thorough { &[0, 1, 2, 3, 5, 9] } else { &[0, 1, 2, 4, 7] };
    let nsym = if o.thorough { 6usize } else { 5 };
    let limits: &[usize] = if o.thorough { &[2, 3, 4, 5] } else { &[3, 4] };
    let total = cset.len().pow(nsym as u32);
    let mut idx = 0usize;
    while idx < total {
        // one case per 256 vectors keeps the trace sharded evenly
        tr.case(&format!("small-{}", idx), prop, json!({}));
        let end = (idx + 256).min(total);
        for k in idx..end {
            let mut c = vec![0u16; nsym];
            let mut x = k;
            for i in 0..nsym {
                c[i] = cset[x % cset.len()];
                x /= cset.len();
            }
            let used = c.iter().filter(|&&v| v != 0).count();
            for &lim in limits {
                if used <= (1usize << lim) {
                    table_event(tr, &c, lim, true);
                }
            }
        }
        idx = end;
    }
    // B. structured count vectors at the real sizes: 288 / 32 symbols under 15 bits, 19 under 7
    let mut fams: Vec<(String, Vec<u16>, usize)> = Vec::new();
    for (n, lim) in [(288usize, 15usize), (32, 15), (19, 7)] {
        // Fibonacci ladders of k symbols (deeper than the limit from k = limit + 2 on)
        for k in [2usize, 3, lim, lim + 1, lim + 2, lim + 3, (lim + 6).min(n), n.min(22)] {
            let k = k.min(n);
            let mut c = vec![0u16; n];
            let (mut a, mut b) = (1u32, 1u32);
            for i in 0..k {
                c[(i * 7 + 3) % n] = a.min(20000) as u16;
                let t = a + b; a = b; b = t;
            }
            fams.push((format!("fib{}-n{}", k, n), c, lim));
        }
        fams.push((format!("ones-n{}", n), vec![1u16; n], lim));
        fams.push((format!("one-n{}", n), { let mut c = vec![0u16; n]; c[n / 2] = 5; c }, lim));
        fams.push((format!("two-n{}", n), { let mut c = vec![0u16; n]; c[0] = 1; c[n - 1] = 60000; c }, lim));
        fams.push((format!("geo-n{}", n), (0..n).map(|i| 1u16 << (i % 12)).map(|v| v.min(100)).collect(), lim));
        fams.push((format!("steps-n{}", n), (0..n).map(|i| (1 + i / 3) as u16).collect(), lim));
        for j in 0..(if o.thorough { 40 } else { 10 }) {
            let mut c = vec![0u16; n];
            let mut budget = 60000u32;
            for i in 0..n {
                if r.gen_range(0..4) == 0 { continue; }
                let v = match r.gen_range(0..4) { 0 => 1, 1 => r.gen_range(1..4), 2 => r.gen_range(1..200), _ => 1 << r.gen_range(0..12) } as u32;
                let v = v.min(budget);
                budget -= v;
                c[i] = v as u16;
            }
            fams.push((format!("rand{}-n{}", j, n), c, lim));
        }
    }
    for (name, c, lim) in fams.iter() {
        tr.case(&format!("full-{}", name), prop, json!({}));
        table_event(tr, c, *lim, c.len() <= 32);
    }
    // C. whole dynamic blocks: code-length sequences on the edges of the run-length packer
    let mut blocks: Vec<(String, Vec<u16>, Vec<u16>)> = Vec::new();
    // zero runs of every length around 3 / 10 / 11 / 138 / 139 between two used literals, and the same
    // with the run ending at the literal/length - distance boundary
    for run in [1usize, 2, 3, 4, 9, 10, 11, 12, 137, 138, 139, 140, 200, 254] {
        let mut lit = vec![0u16; 288];
        lit[0] = 3;
        if run + 1 < 256 { lit[run + 1] = 2; }
        blocks.push((format!("zrun{}", run), lit.clone(), vec![0u16; 32]));
        let mut lit2 = vec![0u16; 288];
        lit2[10] = 4;
        if run < 29 {
            // zeros from symbol 286 - run .. 285 and a used length symbol just before them
            lit2[285 - run] = 1;
            let mut d = vec![0u16; 32];
            d[0] = 1; d[3] = 1;
            blocks.push((format!("ztail{}", run), lit2, d));
        }
    }
    // runs of equal non-zero lengths of every size around 3 / 6 / 7 (symbol 16), also across the boundary
    for run in [1usize, 2, 3, 4, 5, 6, 7, 8, 9, 12, 13, 14, 64, 65] {
        let mut lens = vec![0u8; 288];
        // `run` symbols of one length, the rest of the code space in a chain
        let l = if run <= 2 { 2 } else if run <= 4 { 3 } else if run <= 8 { 4 } else if run <= 16 { 5 } else if run <= 32 { 6 } else { 7 };
        for i in 0..run { lens[20 + i] = l; }
        // fill the remaining space (1 - run / 2^l) with a chain of distinct lengths
        let mut left: u32 = (1u32 << 15) - (run as u32) * (1u32 << (15 - l as u32));
        let mut s = 100usize;
        let mut cur = 1u8;
        while left > 0 && cur <= 15 {
            let unit = 1u32 << (15 - cur as u32);
            if left >= unit { lens[s] = cur; s += 2; left -= unit; } else { cur += 1; }
        }
        lens[256] = if lens[256] == 0 { 0 } else { lens[256] };
        let lit = counts_for_lens(&lens);
        let mut d = vec![0u16; 32];
        for i in 0..(run.min(30)) { d[i] = 16; }
        blocks.push((format!("rep{}", run), lit, d));
    }
    // hlit / hdist extremes
    {
        let mut lit = vec![0u16; 288]; lit[65] = 1;
        blocks.push(("hlit257".into(), lit.clone(), vec![0u16; 32]));
        lit[285] = 1;
        let mut d = vec![0u16; 32]; d[29] = 1;
        blocks.push(("hlit286-hdist30".into(), lit, d));
        let mut lit = vec![1u16; 288]; lit[286] = 0; lit[287] = 0;
        blocks.push(("all286-all30".into(), lit, { let mut d = vec![1u16; 32]; d[30] = 0; d[31] = 0; d }));
    }
    // random complete codes (deep chains and bushy ones), symbols scattered
    for j in 0..(if o.thorough { 300 } else { 60 }) {
        let nl = r.gen_range(2..=286usize);
        let ll = random_complete_lens(nl, &mut r);
        let mut lens = vec![0u8; 288];
        let mut slots: Vec<usize> = (0..286).collect();
        for i in (1..slots.len()).rev() { let k = r.gen_range(0..=i); slots.swap(i, k); }
        if j % 2 == 0 { slots.sort(); }
        for (i, &l) in ll.iter().enumerate() { lens[slots[i]] = l; }
        let nd = r.gen_range(0..=30usize);
        let mut dl = vec![0u8; 32];
        if nd >= 2 {
            let dd = random_complete_lens(nd, &mut r);
            for (i, &l) in dd.iter().enumerate() { dl[i] = l; }
        } else if nd == 1 {
            dl[r.gen_range(0..30)] = 1;
        }
        let mut d = counts_for_lens(&dl);
        if nd == 1 { for x in d.iter_mut() { if *x != 0 { *x = 7; } } }
        blocks.push((format!("randcode{}-{}-{}", j, nl, nd), counts_for_lens(&lens), d));
    }
    for (name, lit, d) in blocks.iter() {
        tr.case(&format!("block-{}", name), prop, json!({}));
        block_event(tr, lit, d);
    }
}
