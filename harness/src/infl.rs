//! Decoder-side drivers: low-level decompress (flat / ring), vector helpers, slice iterator,
//! streaming inflate wrapper. Every call is logged as one event.
use crate::tr::{bytes, Tr};
use miniz_oxide::inflate::core::inflate_flags::*;
use miniz_oxide::inflate::core::{decompress_with_limit, DecompressorOxide};
use miniz_oxide::inflate::stream::{inflate, InflateState};
use miniz_oxide::inflate::{
    decompress_slice_iter_to_slice, decompress_to_vec, decompress_to_vec_with_limit, decompress_to_vec_zlib,
    decompress_to_vec_zlib_with_limit, TINFLStatus,
};
use miniz_oxide::{DataFormat, MZFlush};
use rand::rngs::StdRng;
use rand::Rng;
use serde_json::{json, Value};
use std::panic::{catch_unwind, AssertUnwindSafe};

pub fn st_name(s: TINFLStatus) -> String {
    format!("{:?}", s)
}

/// How the per-call output budget (decompress_with_limit's out_max) is chosen.
#[derive(Clone, Debug)]
pub enum Budget {
    Unlimited,
    Fixed(usize),
    /// random draws from this list (usize::MAX = unlimited)
    Random(Vec<usize>),
}

impl Budget {
    fn next(&self, r: &mut StdRng) -> usize {
        match self {
            Budget::Unlimited => usize::MAX,
            Budget::Fixed(n) => *n,
            Budget::Random(v) => v[r.gen_range(0..v.len())],
        }
    }
    pub fn name(&self) -> String {
        format!("{:?}", self)
    }
}

pub struct DecResult {
    pub status: Option<TINFLStatus>,
    pub consumed: usize,
    pub out: Vec<u8>,
}

/// One logged call of decompress_with_limit. `out` is the caller's buffer; returns
/// (status, consumed, written) or None on panic.
pub fn dec_call(
    tr: &mut Tr,
    obj: u32,
    r: &mut DecompressorOxide,
    input: &[u8],
    out: &mut [u8],
    out_pos: usize,
    out_max: usize,
    flags: u32,
) -> Option<(TINFLStatus, usize, usize)> {
    let before = out.to_vec();
    let res = catch_unwind(AssertUnwindSafe(|| decompress_with_limit(r, input, out, out_pos, out_max, flags)));
    let (st, used, w) = match res {
        Err(_) => {
            tr.suspect = true;
            tr.ev(json!({"ev": "panic", "where": "decompress", "obj": obj, "in_len": input.len(),
                         "out_len": out.len(), "out_pos": out_pos, "flags": flags}));
            return None;
        }
        Ok(x) => x,
    };
    let wrap = flags & TINFL_FLAG_USING_NON_WRAPPING_OUTPUT_BUF == 0;
    // region granted: [out_pos, out_pos + min(len - out_pos, out_max))
    let room = out.len().saturating_sub(out_pos);
    let space = room.min(out_max);
    let lo = out_pos.min(out.len());
    let hi = (out_pos.saturating_add(space)).min(out.len());
    let outside_ok = out[..lo] == before[..lo] && out[hi..] == before[hi..];
    if !outside_ok || w > space || used > input.len() {
        tr.suspect = true;
    }
    let data: Vec<u8> = if out_pos <= out.len() && w <= out.len() - out_pos {
        out[out_pos..out_pos + w].to_vec()
    } else {
        Vec::new()
    };
    let mut dev = json!({"ev": "dec", "obj": obj, "in_len": input.len(), "out_len": out.len(), "out_pos": out_pos,
        "out_max": if out_max == usize::MAX { -1i64 } else { out_max as i64 }, "flags": flags,
        "more": flags & TINFL_FLAG_HAS_MORE_INPUT != 0, "wrap": wrap,
        "status": st_name(st), "consumed": used, "written": w, "data": bytes(&data), "outside_ok": outside_ok,
        "st": r.verif_state().0});
    if let Some(a) = r.adler32() {
        dev["adler"] = json!([a & 0xffff, a >> 16]);
    }
    tr.ev(dev);
    Some((st, used, w))
}

/// Flat (non-wrapping) output buffer, input fed in chunks, per-call budgets.
/// `announce_more_on_last`: keep HAS_MORE_INPUT set even for the last chunk.
thread_local! {
    /// the caller never sets the has-more-input flag although it keeps supplying input, and carries
    /// on after FailedCannotMakeProgress ("if you call the inflator again with more bytes it'll try to
    /// continue processing the input")
    pub static LIE_NO_MORE: std::cell::Cell<bool> = std::cell::Cell::new(false);
}

pub fn drive_flat(
    tr: &mut Tr,
    obj: u32,
    z: &[u8],
    base_flags: u32,
    chunks: &[usize],
    budget: &Budget,
    out_size: usize,
    announce_more_on_last: bool,
    complete: bool,
    r: &mut StdRng,
) -> DecResult {
    drive_flat_off(tr, obj, z, base_flags, chunks, budget, out_size, 0, announce_more_on_last, complete, r)
}

/// As drive_flat, but decoding starts at offset `off` of the (larger) output slice.
pub fn drive_flat_off(
    tr: &mut Tr,
    obj: u32,
    z: &[u8],
    base_flags: u32,
    chunks: &[usize],
    budget: &Budget,
    out_size: usize,
    off: usize,
    announce_more_on_last: bool,
    complete: bool,
    r: &mut StdRng,
) -> DecResult {
    tr.ev(json!({"ev": "dnew", "obj": obj, "mode": "flat", "out_size": out_size, "budget": budget.name()}));
    let mut d = DecompressorOxide::new();
    let mut out = vec![0xC3u8; out_size];
    for (i, b) in out.iter_mut().enumerate() {
        *b = (i as u8).wrapping_mul(31).wrapping_add(7);
    }
    let (mut in_pos, mut out_pos, mut ci, mut avail_end) = (0usize, off.min(out_size), 0usize, 0usize);
    let mut ncalls = 0usize;
    let mut idle = 0;
    let mut spun = false;
    let mut last = None;
    loop {
        if in_pos == avail_end && ci < chunks.len() {
            avail_end = (avail_end + chunks[ci]).min(z.len());
            ci += 1;
        }
        let lie = LIE_NO_MORE.with(|c| c.get());
        let has_more = (ci < chunks.len() || announce_more_on_last) && !lie;
        let flags = base_flags | TINFL_FLAG_USING_NON_WRAPPING_OUTPUT_BUF | if has_more { TINFL_FLAG_HAS_MORE_INPUT } else { 0 };
        let b = if idle >= 3 { usize::MAX } else { budget.next(r) };
        let (st, used, w) = match dec_call(tr, obj, &mut d, &z[in_pos..avail_end], &mut out, out_pos, b, flags) {
            None => break,
            Some(x) => x,
        };
        last = Some(st);
        if used > avail_end - in_pos || w > out.len() - out_pos {
            break;
        }
        in_pos += used;
        out_pos += w;
        ncalls += 1;
        if ncalls > 400_000 {
            tr.ev(json!({"ev": "hang", "where": "flat driver: too many calls"}));
            break;
        }
        let progressed = used > 0 || w > 0;
        match st {
            TINFLStatus::Done => break,
            TINFLStatus::NeedsMoreInput => {
                if ci >= chunks.len() && in_pos == avail_end {
                    break; // announced more input that never comes
                }
            }
            TINFLStatus::HasMoreOutput => {
                // a full buffer with starved input is reported as HasMoreOutput even when only
                // input is missing (issue 110): keep feeding while there is input to offer
                if out_pos == out.len() && !(in_pos == avail_end && ci < chunks.len()) {
                    break;
                }
            }
            TINFLStatus::FailedCannotMakeProgress if lie && (ci < chunks.len() || in_pos < avail_end) => {}
            _ => break,
        }
        if progressed || (in_pos == avail_end && ci < chunks.len()) {
            idle = 0;
        } else {
            idle += 1;
            if idle > 6 {
                spun = true;
                break;
            }
        }
    }
    tr.ev(json!({"ev": "dec_end", "obj": obj, "complete": complete && out_size >= 1, "spun": spun, "wrap": false}));
    out.truncate(out_pos);
    let out = out.split_off(off.min(out_pos));
    DecResult { status: last, consumed: in_pos, out }
}

/// Ring (wrapping) output buffer of size 2^k; the caller drains after every call.
pub fn drive_ring(
    tr: &mut Tr,
    obj: u32,
    z: &[u8],
    base_flags: u32,
    chunks: &[usize],
    budget: &Budget,
    ring: usize,
    complete: bool,
    r: &mut StdRng,
) -> DecResult {
    tr.ev(json!({"ev": "dnew", "obj": obj, "mode": "ring", "out_size": ring, "budget": budget.name()}));
    let mut d = DecompressorOxide::new();
    let mut out = vec![0u8; ring];
    for (i, b) in out.iter_mut().enumerate() {
        *b = (i as u8).wrapping_mul(13).wrapping_add(1);
    }
    let mut all = Vec::new();
    let (mut in_pos, mut ci, mut avail_end) = (0usize, 0usize, 0usize);
    let mut total_out = 0usize;
    let mut ncalls = 0usize;
    let mut idle = 0;
    let mut spun = false;
    let mut last = None;
    loop {
        if in_pos == avail_end && ci < chunks.len() {
            avail_end = (avail_end + chunks[ci]).min(z.len());
            ci += 1;
        }
        let lie = LIE_NO_MORE.with(|c| c.get());
        let has_more = ci < chunks.len() && !lie;
        let flags = base_flags | if has_more { TINFL_FLAG_HAS_MORE_INPUT } else { 0 };
        let out_pos = if ring == 0 { 0 } else { total_out & (ring - 1) };
        let b = if idle >= 3 { usize::MAX } else { budget.next(r) };
        let (st, used, w) = match dec_call(tr, obj, &mut d, &z[in_pos..avail_end], &mut out, out_pos, b, flags) {
            None => break,
            Some(x) => x,
        };
        last = Some(st);
        if used > avail_end - in_pos || w > out.len() - out_pos {
            break;
        }
        all.extend_from_slice(&out[out_pos..out_pos + w]);
        in_pos += used;
        total_out += w;
        ncalls += 1;
        if total_out > (64 << 20) || ncalls > 400_000 {
            // a decoder that never stops producing output: report instead of filling the disk
            tr.ev(json!({"ev": "hang", "where": "ring driver: runaway output"}));
            break;
        }
        let progressed = used > 0 || w > 0;
        match st {
            TINFLStatus::Done => break,
            TINFLStatus::NeedsMoreInput => {
                if ci >= chunks.len() && in_pos == avail_end {
                    break;
                }
            }
            TINFLStatus::HasMoreOutput => {
                if ring == 0 {
                    break;
                }
            }
            TINFLStatus::FailedCannotMakeProgress if lie && (ci < chunks.len() || in_pos < avail_end) => {}
            _ => break,
        }
        if progressed || (in_pos == avail_end && ci < chunks.len()) {
            idle = 0;
        } else {
            idle += 1;
            if idle > 6 {
                spun = true;
                break;
            }
        }
    }
    tr.ev(json!({"ev": "dec_end", "obj": obj, "complete": complete && ring > 0, "spun": spun, "wrap": true}));
    DecResult { status: last, consumed: in_pos, out: all }
}

/// decompress_to_vec family with limits.
pub fn vec_fns(tr: &mut Tr, z: &[u8], zlib: bool, limits: &[i64]) {
    for &lim in limits {
        let res = catch_unwind(AssertUnwindSafe(|| match (zlib, lim) {
            (false, l) if l < 0 => decompress_to_vec(z),
            (true, l) if l < 0 => decompress_to_vec_zlib(z),
            (false, l) => decompress_to_vec_with_limit(z, l as usize),
            (true, l) => decompress_to_vec_zlib_with_limit(z, l as usize),
        }));
        match res {
            Err(_) => tr.ev(json!({"ev": "panic", "where": "decompress_to_vec", "limit": lim})),
            Ok(Ok(v)) => tr.ev(json!({"ev": "vec", "zlib": zlib, "limit": lim, "status": "Ok", "len": v.len(), "data": bytes(&v)})),
            Ok(Err(e)) => tr.ev(json!({"ev": "vec", "zlib": zlib, "limit": lim, "status": st_name(e.status),
                                        "len": e.output.len(), "data": bytes(&e.output)})),
        }
    }
}

pub fn slice_iter(tr: &mut Tr, z: &[u8], zlib: bool, ignore_adler: bool, chunk: usize, out_len: usize) {
    let mut out = vec![0u8; out_len];
    let mut slices: Vec<&[u8]> = if chunk == 0 { vec![z] } else { z.chunks(chunk).collect() };
    if chunk % 2 == 1 && slices.len() >= 2 {
        // an iterator is free to yield empty slices: one in the middle, one in front
        slices.insert(1, &z[..0]);
        slices.insert(0, &z[..0]);
    }
    let n = slices.len();
    let res = catch_unwind(AssertUnwindSafe(|| {
        decompress_slice_iter_to_slice(&mut out, slices.iter().copied(), zlib, ignore_adler)
    }));
    match res {
        Err(_) => tr.ev(json!({"ev": "panic", "where": "decompress_slice_iter_to_slice"})),
        Ok(Ok(k)) => {
            let kk = k.min(out_len);
            tr.ev(json!({"ev": "sliceiter", "nslices": n, "out_len": out_len, "zlib": zlib, "ignore": ignore_adler,
                         "whole": true, "status": "Ok", "n": k, "data": bytes(&out[..kk])}))
        }
        Ok(Err(s)) => tr.ev(json!({"ev": "sliceiter", "nslices": n, "out_len": out_len, "zlib": zlib,
                                   "ignore": ignore_adler, "whole": true, "status": st_name(s), "n": 0, "data": []})),
    }
}

pub fn fmt_name(f: DataFormat) -> &'static str {
    match f {
        DataFormat::Zlib => "Zlib",
        DataFormat::ZLibIgnoreChecksum => "ZLibIgnoreChecksum",
        DataFormat::Raw => "Raw",
        _ => "Other",
    }
}

pub fn flush_of(i: usize) -> MZFlush {
    [MZFlush::None, MZFlush::Sync, MZFlush::Finish, MZFlush::Full, MZFlush::Partial, MZFlush::Block][i % 6]
}

/// One logged inflate() call; returns None on panic / contract breach.
pub fn inf_call(
    tr: &mut Tr,
    obj: u32,
    st: &mut InflateState,
    input: &[u8],
    out_len: usize,
    flush: MZFlush,
    all_input: bool,
) -> Option<(miniz_oxide::StreamResult, Vec<u8>)> {
    let mut buf = vec![0x77u8; out_len];
    let res = catch_unwind(AssertUnwindSafe(|| inflate(st, input, &mut buf, flush)));
    match res {
        Err(_) => {
            tr.suspect = true;
            tr.ev(json!({"ev": "panic", "where": "inflate", "obj": obj}));
            None
        }
        Ok(r) => {
            let w = r.bytes_written.min(out_len);
            let tail_ok = buf[w..].iter().all(|&b| b == 0x77);
            tr.ev(json!({"ev": "inf", "obj": obj, "in_len": input.len(), "out_len": out_len,
                "flush": crate::comp::mzflush_name(flush), "status": crate::comp::mz_result(&r.status),
                "consumed": r.bytes_consumed, "written": r.bytes_written, "data": bytes(&buf[..w]),
                "tail_untouched": tail_ok, "all_input": all_input}));
            if r.bytes_consumed > input.len() || r.bytes_written > out_len || !tail_ok {
                tr.suspect = true;
            }
            if r.bytes_consumed > input.len() || r.bytes_written > out_len {
                return None;
            }
            buf.truncate(w);
            Some((r, buf))
        }
    }
}

/// The canonical zlib-style driver loop over inflate(): feed chunks, drain output, until
/// StreamEnd or an error. `outs`: candidate output sizes per call. `finish_last`: use Finish
/// once all input has been handed over.
pub fn drive_inflate(
    tr: &mut Tr,
    obj: u32,
    z: &[u8],
    fmt: DataFormat,
    chunks: &[usize],
    outs: &[usize],
    finish_last: bool,
    r: &mut StdRng,
) -> DecResult {
    tr.ev(json!({"ev": "inf_new", "obj": obj, "format": fmt_name(fmt)}));
    let mut st = InflateState::new_boxed(fmt);
    let (mut in_pos, mut ci, mut avail_end) = (0usize, 0usize, 0usize);
    let mut all = Vec::new();
    let mut idle = 0;
    let mut spun = false;
    let mut ended = false;
    let mut ncalls = 0;
    // a Finish request on the very first call promises the whole output fits (zlib semantics);
    // if it does not, the stream is abandoned by design - not the "usual driver loop"
    let mut canonical = true;
    loop {
        if in_pos == avail_end && ci < chunks.len() {
            avail_end = (avail_end + chunks[ci]).min(z.len());
            ci += 1;
        }
        let all_in = ci >= chunks.len();
        let flush = if finish_last && all_in { MZFlush::Finish } else { MZFlush::None };
        ncalls += 1;
        if ncalls == 1 && flush == MZFlush::Finish {
            canonical = false;
        }
        let ol = outs[r.gen_range(0..outs.len())].max(1);
        let (res, data) = match inf_call(tr, obj, &mut st, &z[in_pos..avail_end], ol, flush, all_in) {
            None => break,
            Some(x) => x,
        };
        in_pos += res.bytes_consumed;
        all.extend_from_slice(&data);
        if all.len() > (64 << 20) || ncalls > 400_000 {
            tr.ev(json!({"ev": "hang", "where": "inflate driver: runaway output"}));
            break;
        }
        match res.status {
            Ok(miniz_oxide::MZStatus::StreamEnd) => {
                ended = true;
                break;
            }
            Ok(_) => {}
            Err(miniz_oxide::MZError::Buf) => {
                // recoverable only if more input can be supplied or more output space given
                if all_in && in_pos == avail_end && !finish_last {
                    break;
                }
                if finish_last && all_in && data.len() < ol {
                    break; // Finish on a truncated stream
                }
            }
            Err(_) => break,
        }
        if res.bytes_consumed > 0 || !data.is_empty() || (in_pos == avail_end && ci < chunks.len()) {
            idle = 0;
        } else {
            idle += 1;
            if idle > 6 {
                spun = true;
                break;
            }
        }
    }
    tr.ev(json!({"ev": "inf_end", "obj": obj, "canonical": canonical || ended, "spun": spun}));
    DecResult { status: None, consumed: in_pos, out: all }
}

pub fn stream_event(z: &[u8], p: Option<&[u8]>, zlib: bool, extra: Value) -> Value {
    let mut v = json!({"ev": "stream", "zlib": zlib, "z": bytes(z)});
    match p {
        Some(p) => {
            v["mode"] = json!("verify");
            v["p"] = bytes(p);
        }
        None => {
            v["mode"] = json!("produce");
        }
    }
    if let (Some(o), Some(e)) = (v.as_object_mut(), extra.as_object()) {
        for (k, x) in e {
            o.insert(k.clone(), x.clone());
        }
    }
    v
}

/// A random call sequence over the C13 alphabet on one InflateState.
pub fn drive_inflate_random(tr: &mut Tr, obj: u32, z: &[u8], fmt: DataFormat, ncalls: usize, r: &mut StdRng) {
    tr.ev(json!({"ev": "inf_new", "obj": obj, "format": fmt_name(fmt)}));
    let mut st = InflateState::new_boxed(fmt);
    let mut in_pos = 0usize;
    for _ in 0..ncalls {
        let rem = z.len() - in_pos;
        let ch = match r.gen_range(0..6) { 0 => 0, 1 => 1, 2 => 2, 3 => r.gen_range(0..40), _ => rem }.min(rem);
        let ol = match r.gen_range(0..7) { 0 => 0, 1 => 1, 2 => 3, 3 => r.gen_range(1..300), _ => 70000 };
        let fl = match r.gen_range(0..12) { 0 => MZFlush::Sync, 1 | 2 => MZFlush::Finish, 3 => MZFlush::Full, 4 => MZFlush::Partial, _ => MZFlush::None };
        let all_in = in_pos + ch == z.len();
        match inf_call(tr, obj, &mut st, &z[in_pos..in_pos + ch], ol, fl, all_in) {
            None => break,
            Some((res, _)) => in_pos += res.bytes_consumed,
        }
    }
    tr.ev(json!({"ev": "inf_end", "obj": obj, "canonical": false, "spun": false}));
}

/// Two slices cut at `cut`; output of exactly `out_len` bytes. `trailer_cut` tells the spec that
/// the cut lies inside the zlib trailer (no spare output byte is needed there).
pub fn slice_iter_cut(tr: &mut Tr, z: &[u8], zlib: bool, cut: usize, out_len: usize) {
    let mut out = vec![0u8; out_len];
    let slices: Vec<&[u8]> = vec![&z[..cut], &z[cut..]];
    let res = catch_unwind(AssertUnwindSafe(|| decompress_slice_iter_to_slice(&mut out, slices.iter().copied(), zlib, false)));
    match res {
        Err(_) => tr.ev(json!({"ev": "panic", "where": "decompress_slice_iter_to_slice"})),
        Ok(Ok(k)) => {
            let kk = k.min(out_len);
            tr.ev(json!({"ev": "sliceiter", "nslices": 2, "out_len": out_len, "zlib": zlib, "ignore": false, "trailer_cut": true,
                         "whole": true, "status": "Ok", "n": k, "data": bytes(&out[..kk])}))
        }
        Ok(Err(s)) => tr.ev(json!({"ev": "sliceiter", "nslices": 2, "out_len": out_len, "zlib": zlib, "ignore": false,
                                   "trailer_cut": true, "whole": true, "status": st_name(s), "n": 0, "data": []})),
    }
}
