//! Decoder-side scenarios (C03..C08, C13).
use crate::comp::{Cfg, STRATS};
use crate::gen;
use crate::infl::*;
use crate::tr::Tr;
use crate::Opts;
use miniz_oxide::deflate::core::{compress, TDEFLFlush, TDEFLStatus};
use miniz_oxide::inflate::core::inflate_flags::*;
use miniz_oxide::DataFormat;
use rand::rngs::StdRng;
use rand::Rng;
use serde_json::json;

/// Compress with the crate's compressor, optionally inserting flushes (to get several blocks,
/// empty stored blocks at odd alignments, partial-flush empty fixed blocks).
pub fn make_stream(data: &[u8], cfg: &Cfg, flushy: bool, r: &mut StdRng) -> Vec<u8> {
    let mut c = cfg.make();
    let mut out = vec![0u8; data.len() * 2 + 4096];
    let mut op = 0;
    let mut ip = 0;
    loop {
        let end = if flushy { (ip + r.gen_range(0..data.len().max(1) / 3 + 2)).min(data.len()) } else { data.len() };
        let fl = if end == data.len() {
            TDEFLFlush::Finish
        } else {
            [TDEFLFlush::Sync, TDEFLFlush::Partial, TDEFLFlush::Full, TDEFLFlush::NoSync, TDEFLFlush::None][r.gen_range(0..5)]
        };
        let (st, used, w) = compress(&mut c, &data[ip..end], &mut out[op..], fl);
        ip += used;
        op += w;
        if st == TDEFLStatus::Done {
            break;
        }
        if st != TDEFLStatus::Okay || op + 64 > out.len() {
            break;
        }
    }
    out.truncate(op);
    out
}

pub struct Src {
    pub name: String,
    pub z: Vec<u8>,
    pub p: Vec<u8>,
    pub zlib: bool,
}

/// A spread of valid streams produced by the bundled compressor.
pub fn sources(o: &Opts, r: &mut StdRng, big: bool) -> Vec<Src> {
    let mut v = Vec::new();
    let kinds = ["text", "rand", "alpha4", "zeros", "period7", "runs", "mixed", "xx", "planted300"];
    let mut n = 0usize;
    for (ki, kind) in kinds.iter().enumerate() {
        for &(lvl, st) in &[(0u8, 0usize), (1, 0), (6, 0), (9, 0), (6, 4), (6, 2), (2, 3), (5, 1)] {
            n += 1;
            if !o.thorough && (n + o.seed as usize) % 3 != 0 {
                continue;
            }
            let zl = n % 2 == 0;
            let size = [0usize, 1, 5, 40, 300, 700, 1500][(n + ki) % 7];
            let d = gen::data(kind, size, r);
            let cfg = Cfg { zlib: zl, level: lvl, strat: st, wbits: 15, api: "params" };
            let z = make_stream(&d, &cfg, n % 4 == 1, r);
            v.push(Src { name: format!("{}-{}-l{}-{}-{}", kind, size, lvl, STRATS[st].0, if zl { "z" } else { "r" }), z, p: d, zlib: zl });
        }
    }
    if big {
        // streams whose plaintext exceeds the 32 KiB ring (wrap-around) but are cheap to parse
        for (kind, size, lvl) in [("zeros", 70_000usize, 6u8), ("period300", 100_000, 1), ("runs", 40_000, 9), ("rand", 33_000, 0),
                                  ("period5", 32_768, 6), ("period40000", 90_000, 6)] {
            let d = gen::data(kind, size, r);
            let zl = size % 2 == 0;
            let cfg = Cfg { zlib: zl, level: lvl, strat: 0, wbits: 15, api: "params" };
            let z = make_stream(&d, &cfg, false, r);
            v.push(Src { name: format!("big-{}-{}-l{}", kind, size, lvl), z, p: d, zlib: zl });
        }
    }
    v
}

fn base_flags(zlib: bool) -> u32 {
    if zlib { TINFL_FLAG_PARSE_ZLIB_HEADER } else { 0 }
}

/// C03: every entry point on valid streams.
pub fn scn_entrypoints(o: &Opts, tr: &mut Tr, prop: &str) {
    let mut r = gen::rng(o.seed, 303);
    let srcs = sources(o, &mut r, true);
    for s in &srcs {
        tr.case(&format!("ep-{}", s.name), prop, json!({"zlen": s.z.len(), "plen": s.p.len()}));
        tr.ev(stream_event(&s.z, Some(&s.p), s.zlib, json!({})));
        let bf = base_flags(s.zlib);
        let n = s.p.len();
        let small = n <= 4096;
        // flat, exact size and larger, single call
        drive_flat(tr, 1, &s.z, bf, &[s.z.len()], &Budget::Unlimited, n, false, true, &mut r);
        drive_flat(tr, 2, &s.z, bf, &[s.z.len()], &Budget::Unlimited, n + 300, false, true, &mut r);
        // ring 32 KiB
        let ch = gen::chunks("rand", s.z.len(), &mut r);
        drive_ring(tr, 3, &s.z, bf, &ch, &Budget::Unlimited, 32768, true, &mut r);
        if small {
            // smaller rings are adequate when the whole plaintext fits
            // (raw only: in zlib mode a ring smaller than the declared window is refused)
            if !s.zlib {
                let k = n.next_power_of_two().max(1);
                drive_ring(tr, 4, &s.z, bf, &[s.z.len()], &Budget::Unlimited, k, true, &mut r);
            }
            vec_fns(tr, &s.z, s.zlib, &[-1, (n + 1) as i64, n as i64]);
            slice_iter(tr, &s.z, s.zlib, false, 0, n);
            slice_iter(tr, &s.z, s.zlib, false, 1 + r.gen_range(0..7), n + 1);
            slice_iter(tr, &s.z, s.zlib, true, 1 + r.gen_range(0..50), n + 1 + r.gen_range(0..10));
            if s.zlib && s.z.len() > 6 {
                // exact-size output, the cut falls inside the 4-byte trailer: only input is missing
                for back in 1..=4usize {
                    slice_iter_cut(tr, &s.z, true, s.z.len() - back, n);
                }
            }
        } else {
            vec_fns(tr, &s.z, s.zlib, &[-1]);
        }
        // streaming wrapper: None... and Finish-first
        let fmt = if s.zlib { DataFormat::Zlib } else { DataFormat::Raw };
        let ch2 = gen::chunks("rand", s.z.len(), &mut r);
        drive_inflate(tr, 1, &s.z, fmt, &ch2, &[1, 7, 100, 40000], false, &mut r);
        drive_inflate(tr, 2, &s.z, fmt, &[s.z.len()], &[n.max(1) + 10], true, &mut r);
        drive_inflate(tr, 3, &s.z, fmt, &ch2, &[64, 5000], true, &mut r);
        if s.zlib {
            drive_inflate(tr, 4, &s.z, DataFormat::ZLibIgnoreChecksum, &ch2, &[333], false, &mut r);
        }
    }
}

pub fn mutate(z: &[u8], r: &mut StdRng) -> (Vec<u8>, &'static str) {
    let mut v = z.to_vec();
    if v.is_empty() {
        return (vec![r.gen()], "rand1");
    }
    match r.gen_range(0..8) {
        0 | 1 | 2 => {
            let i = r.gen_range(0..v.len());
            v[i] ^= 1 << r.gen_range(0..8);
            (v, "bitflip")
        }
        3 => {
            let i = r.gen_range(0..=v.len());
            v.insert(i, r.gen());
            (v, "insert")
        }
        4 => {
            let i = r.gen_range(0..v.len());
            v.remove(i);
            (v, "delete")
        }
        5 => {
            let i = r.gen_range(0..v.len());
            v[i] = r.gen();
            (v, "replace")
        }
        6 => {
            let i = r.gen_range(0..v.len());
            let n = r.gen_range(1..8).min(v.len() - i);
            for k in 0..n {
                v[i + k] = 0xff;
            }
            (v, "ff")
        }
        _ => {
            let i = r.gen_range(0..v.len());
            v.truncate(i);
            v.extend((0..r.gen_range(0..6)).map(|_| r.gen::<u8>()));
            (v, "cut+junk")
        }
    }
}

fn trailing(kind: usize, n: usize, other: &[u8], r: &mut StdRng) -> Vec<u8> {
    match kind % 5 {
        0 => vec![0xff; n],
        1 => vec![0x00; n],
        2 => (0..n).map(|_| r.gen()).collect(),
        3 => other.iter().cycle().take(n).copied().collect(), // looks like another stream
        _ => [0x01u8, 0x00, 0x00, 0xff, 0xff, 0x03, 0x00].iter().cycle().take(n).copied().collect(), // valid empty blocks
    }
}

/// C06: exact end of stream with arbitrary trailing data.
pub fn scn_trailing(o: &Opts, tr: &mut Tr, prop: &str) {
    let mut r = gen::rng(o.seed, 606);
    bulk_decode(o, tr, prop, &mut gen::rng(o.seed, 6060), 2000, 20000);
    let srcs = sources(o, &mut r, false);
    let mut n = 0;
    for s in &srcs {
        for rep in 0..(if o.thorough { 4 } else { 2 }) {
            n += 1;
            let tn = [0usize, 1, 2, 3, 4, 7, 8, 9, 15, 33, 64][(n + rep) % 11];
            let t = trailing(n + rep, tn, &s.z, &mut r);
            let mut z = s.z.clone();
            z.extend_from_slice(&t);
            tr.case(&format!("tr-{}-t{}k{}", s.name, tn, (n + rep) % 5), prop, json!({"zlen": s.z.len(), "trailing": tn}));
            tr.ev(stream_event(&z, Some(&s.p), s.zlib, json!({})));
            let bf = base_flags(s.zlib);
            let pl = s.p.len();
            drive_flat(tr, 1, &z, bf, &[z.len()], &Budget::Unlimited, pl + 10, false, true, &mut r);
            drive_flat(tr, 2, &z, bf, &[z.len()], &Budget::Unlimited, pl, false, true, &mut r);
            let ch = gen::chunks("rand", z.len(), &mut r);
            drive_flat(tr, 3, &z, bf, &ch, &Budget::Random(vec![0, 1, 2, 300, usize::MAX]), pl + 1, false, true, &mut r);
            drive_flat(tr, 4, &z, bf, &gen::chunks("fixed1", z.len(), &mut r), &Budget::Unlimited, pl + 1, false, true, &mut r);
            drive_flat(tr, 5, &z, bf, &[z.len()], &Budget::Unlimited, pl + 1, true, true, &mut r);
            drive_ring(tr, 6, &z, bf, &ch, &Budget::Random(vec![1, 259, usize::MAX]), 32768, true, &mut r);
            let fmt = if s.zlib { DataFormat::Zlib } else { DataFormat::Raw };
            drive_inflate(tr, 1, &z, fmt, &ch, &[1, 50, 40000], false, &mut r);
            drive_inflate(tr, 2, &z, fmt, &[z.len()], &[pl + 1], true, &mut r);
            drive_inflate(tr, 3, &z, fmt, &gen::chunks("fixed3", z.len(), &mut r), &[4096], false, &mut r);
            if pl <= 2000 {
                slice_iter(tr, &z, s.zlib, false, 0, pl + 1);
            }
        }
    }
}

/// C07: suspend/resume anywhere. Valid and invalid streams; equivalence with the single-call run.
pub fn scn_schedules(o: &Opts, tr: &mut Tr, prop: &str) {
    let mut r = gen::rng(o.seed, 707);
    bulk_decode(o, tr, prop, &mut gen::rng(o.seed, 7070), 3000, 30000);
    let srcs = sources(o, &mut r, true);
    let budgets = [
        Budget::Unlimited,
        Budget::Random(vec![0, 1, 2, usize::MAX]),
        Budget::Random(vec![1, 2, 3, 257, 258, 259, 260]),
        Budget::Fixed(1),
        Budget::Fixed(259),
        Budget::Random(vec![0, 1, 5, 100, 5000]),
    ];
    let mut idx = 0usize;
    for s in &srcs {
        // the valid stream and a few mutants of it
        let mut variants: Vec<(Vec<u8>, Option<&[u8]>, String)> = vec![(s.z.clone(), Some(&s.p[..]), "valid".into())];
        if s.z.len() <= 2500 {
            for _ in 0..(if o.thorough { 4 } else { 2 }) {
                let (m, k) = mutate(&s.z, &mut r);
                variants.push((m, None, k.into()));
            }
        }
        for (z, p, vk) in variants {
            idx += 1;
            let big = s.p.len() > 5000;
            tr.case(&format!("sch-{}-{}-{}", s.name, vk, idx), prop, json!({"zlen": z.len(), "variant": vk}));
            tr.ev(stream_event(&z, p, s.zlib, json!({"cap": 30000})));
            let bf = base_flags(s.zlib);
            let osz = if p.is_some() { s.p.len() + 7 } else { 40000 };
            // baselines: single call, flat and ring
            drive_flat(tr, 1, &z, bf, &[z.len()], &Budget::Unlimited, osz, false, p.is_some(), &mut r);
            drive_ring(tr, 2, &z, bf, &[z.len()], &Budget::Unlimited, 32768, p.is_some(), &mut r);
            let mut scheds: Vec<(Vec<usize>, usize)> = Vec::new();
            if z.len() <= 600 && !big {
                // every single cut point, and one-byte feeding
                let step = if o.thorough || z.len() <= 120 { 1 } else { 1 + z.len() / 120 };
                let mut c = (idx % step).max(0);
                while c <= z.len() {
                    scheds.push((vec![c, z.len() - c], 0));
                    c += step;
                }
                scheds.push((gen::chunks("fixed1", z.len(), &mut r), 0));
                scheds.push((gen::chunks("fixed1", z.len(), &mut r), 3));
            }
            for k in 0..(if big { 3 } else { 6 }) {
                scheds.push((gen::chunks("rand", z.len(), &mut r), (k + idx) % budgets.len()));
            }
            scheds.push((gen::chunks("fixed2", z.len(), &mut r), 2));
            scheds.push((vec![z.len()], 4));
            scheds.push((vec![z.len()], 1));
            for (k, (ch, bi)) in scheds.iter().enumerate() {
                if big && budgets[*bi].name().contains("Fixed(1)") {
                    continue;
                }
                if k % 2 == 0 {
                    drive_flat(tr, 3, &z, bf, ch, &budgets[*bi], osz, false, p.is_some(), &mut r);
                    tr.ev(json!({"ev": "equiv", "a": 1, "b": 3}));
                } else {
                    drive_ring(tr, 4, &z, bf, ch, &budgets[*bi], 32768, p.is_some(), &mut r);
                    tr.ev(json!({"ev": "equiv", "a": 2, "b": 4}));
                }
            }
            // streaming wrapper: two different schedules must agree with each other
            let fmt = if s.zlib { DataFormat::Zlib } else { DataFormat::Raw };
            drive_inflate(tr, 1, &z, fmt, &[z.len()], &[50000], false, &mut r);
            drive_inflate(tr, 2, &z, fmt, &gen::chunks("rand", z.len(), &mut r), &[1, 2, 3, 64, 1000], false, &mut r);
            tr.ev(json!({"ev": "equiv_s", "a": 1, "b": 2}));
            if !big {
                drive_inflate(tr, 3, &z, fmt, &gen::chunks("fixed1", z.len(), &mut r), &[1], false, &mut r);
                tr.ev(json!({"ev": "equiv_s", "a": 1, "b": 3}));
            }
        }
    }
}

/// C04: invalid streams are never accepted; prefixes of valid streams are never rejected.
pub fn scn_invalid(o: &Opts, tr: &mut Tr, prop: &str) {
    let mut r = gen::rng(o.seed, 404);
    let srcs = sources(o, &mut r, false);
    let mut idx = 0usize;
    for s in &srcs {
        if s.z.len() > 3000 {
            continue;
        }
        let bf = base_flags(s.zlib);
        let fmt = if s.zlib { DataFormat::Zlib } else { DataFormat::Raw };
        // mutants judged by the acceptor in Produce mode
        for _ in 0..(if o.thorough { 12 } else { 4 }) {
            idx += 1;
            let (z, k) = mutate(&s.z, &mut r);
            tr.case(&format!("inv-{}-{}-{}", s.name, k, idx), prop, json!({"zlen": z.len(), "mut": k}));
            tr.ev(stream_event(&z, None, s.zlib, json!({"cap": 20000})));
            drive_flat(tr, 1, &z, bf, &[z.len()], &Budget::Unlimited, 30000, false, true, &mut r);
            drive_flat(tr, 2, &z, bf, &gen::chunks("rand", z.len(), &mut r), &Budget::Random(vec![1, 2, 300, usize::MAX]), 30000, false, true, &mut r);
            drive_ring(tr, 3, &z, bf, &gen::chunks("rand", z.len(), &mut r), &Budget::Unlimited, 32768, true, &mut r);
            vec_fns(tr, &z, s.zlib, &[-1, 25000]);
            slice_iter(tr, &z, s.zlib, false, 1 + r.gen_range(0..9), 30000);
            drive_inflate(tr, 1, &z, fmt, &gen::chunks("rand", z.len(), &mut r), &[1, 100, 40000], false, &mut r);
            drive_inflate(tr, 2, &z, fmt, &[z.len()], &[30000], true, &mut r);
        }
        // proper prefixes: never rejected as corrupt
        let cuts: Vec<usize> = if s.z.len() <= 80 || o.thorough { (0..s.z.len()).collect() } else {
            (0..s.z.len()).filter(|c| c % (1 + s.z.len() / 40) == idx % (1 + s.z.len() / 40) || *c + 6 >= s.z.len()).collect()
        };
        tr.case(&format!("pre-{}", s.name), prop, json!({"zlen": s.z.len(), "cuts": cuts.len()}));
        for c in cuts {
            let z = &s.z[..c];
            tr.ev(stream_event(z, Some(&s.p), s.zlib, json!({"prefix": true})));
            drive_flat(tr, 1, z, bf, &[c], &Budget::Unlimited, s.p.len() + 5, false, false, &mut r);
            drive_flat(tr, 2, z, bf, &[c], &Budget::Unlimited, s.p.len() + 5, true, false, &mut r);
            if c % 3 == 0 {
                drive_ring(tr, 3, z, bf, &gen::chunks("rand", c, &mut r), &Budget::Unlimited, 32768, false, &mut r);
                drive_inflate(tr, 1, z, fmt, &gen::chunks("rand", c, &mut r), &[1, 100, 40000], false, &mut r);
                drive_inflate(tr, 2, z, fmt, &[c], &[s.p.len() + 100], true, &mut r);
            }
        }
    }
}

/// C05: arbitrary bytes, flags, geometries and histories on one decoder object.
pub fn scn_total(o: &Opts, tr: &mut Tr, prop: &str) {
    use miniz_oxide::inflate::core::DecompressorOxide;
    let mut r = gen::rng(o.seed, 505);
    total_structured(o, tr, prop, &mut gen::rng(o.seed, 5050));
    let srcs = sources(o, &mut r, false);
    let geoms = [0usize, 1, 2, 3, 5, 100, 128, 257, 258, 259, 260, 517, 4096, 32768, 40000, 1000];
    let ncases = if o.thorough { 6000 } else { 1500 };
    for ci in 0..ncases {
        tr.case(&format!("tot-{}", ci), prop, json!({}));
        // byte source for this history: random, mutated stream, or valid stream
        let src: Vec<u8> = match ci % 4 {
            0 => gen::data("rand", r.gen_range(0..400), &mut r),
            1 => { let s = &srcs[r.gen_range(0..srcs.len())]; mutate(&s.z, &mut r).0 }
            2 => { let s = &srcs[r.gen_range(0..srcs.len())]; s.z.clone() }
            _ => { let mut v = gen::data("rand", r.gen_range(0..60), &mut r); let s = &srcs[r.gen_range(0..srcs.len())]; v.extend_from_slice(&s.z); v }
        };
        let mut d = DecompressorOxide::new();
        tr.ev(json!({"ev": "dnew", "obj": 1, "mode": "history"}));
        let mut pos = 0usize;
        let ncalls = r.gen_range(1..14);
        let fixed_flags: u32 = r.gen_range(0..256);
        let vary = r.gen_range(0..3) == 0;
        let mut out_total = 0usize;
        for _ in 0..ncalls {
            let flags: u32 = if vary { r.gen_range(0..256) } else { fixed_flags ^ (if r.gen_range(0..4) == 0 { 2 } else { 0 }) };
            let glen = geoms[r.gen_range(0..geoms.len())];
            let out_pos = match r.gen_range(0..6) { 0 => 0, 1 => glen, 2 => glen + 1, 3 => out_total.min(glen), _ => r.gen_range(0..=glen) };
            let out_max = match r.gen_range(0..6) { 0 => r.gen_range(0..300), 1 => [257usize, 258, 259, 260][r.gen_range(0..4)], _ => usize::MAX };
            let take = match r.gen_range(0..5) { 0 => 0, 1 => 1, 2 => r.gen_range(0..20), _ => src.len() - pos }.min(src.len() - pos);
            let mut out = vec![0x3Cu8; glen];
            for (i, b) in out.iter_mut().enumerate() { *b = (i as u8) ^ 0x5a; }
            let snap = serde_json::to_string(&d).unwrap_or_default();
            let res = dec_call(tr, 1, &mut d, &src[pos..pos + take], &mut out, out_pos, out_max, flags);
            match res {
                None => break,
                Some((st, used, w)) => {
                    if st == miniz_oxide::inflate::TINFLStatus::BadParam {
                        let after = serde_json::to_string(&d).unwrap_or_default();
                        tr.ev(json!({"ev": "state_same", "obj": 1, "same": snap == after}));
                    }
                    if used <= take { pos += used; }
                    out_total += w;
                    if r.gen_range(0..10) == 0 {
                        d.init();
                        tr.ev(json!({"ev": "dnew", "obj": 1, "mode": "init"}));
                    }
                }
            }
        }
    }
}

/// C05 (structured part): valid streams of literal + maximal-match pairs decoded with budgets that
/// leave 257..261 bytes of room at call boundaries - the fast loop's entry guard.
pub fn total_structured(o: &Opts, tr: &mut Tr, prop: &str, r: &mut StdRng) {
    let n = if o.thorough { 200 } else { 40 };
    for i in 0..n {
        let d = gen::data("runs259", 3000 + r.gen_range(0..6000), r);
        let zl = i % 2 == 0;
        let cfg = Cfg { zlib: zl, level: [6u8, 1, 9, 2][i % 4], strat: [0usize, 3, 4][i % 3], wbits: 15, api: "params" };
        let z = make_stream(&d, &cfg, false, r);
        tr.hold();
        tr.case(&format!("tots-{}", i), prop, json!({"zlen": z.len(), "plen": d.len()}));
        tr.ev(stream_event(&z, Some(&d), zl, json!({})));
        let b = Budget::Random(vec![257, 258, 259, 260, 261, 516, 517, 518, 519, 775, 776, 777]);
        let res = drive_flat(tr, 1, &z, base_flags(zl), &[z.len()], &b, d.len() + [0usize, 1, 258, 300][i % 4], false, true, r);
        let res2 = drive_ring(tr, 2, &z, base_flags(zl), &gen::chunks("rand", z.len(), r), &b, 32768, true, r);
        let bad = |x: &DecResult| !(x.status == Some(miniz_oxide::inflate::TINFLStatus::Done) && x.out == d);
        tr.release(i < 6 || bad(&res) || bad(&res2));
    }
}

/// C08: writes stay inside the granted window (geometry sweep), limits of the vector helpers.
pub fn scn_window(o: &Opts, tr: &mut Tr, prop: &str) {
    let mut r = gen::rng(o.seed, 808);
    bulk_decode(o, tr, prop, &mut gen::rng(o.seed, 8080), 2000, 20000);
    total_structured(o, tr, prop, &mut gen::rng(o.seed, 8081));
    let srcs = sources(o, &mut r, true);
    for s in &srcs {
        let n = s.p.len();
        let bf = base_flags(s.zlib);
        tr.case(&format!("win-{}", s.name), prop, json!({"zlen": s.z.len(), "plen": n}));
        tr.ev(stream_event(&s.z, Some(&s.p), s.zlib, json!({})));
        let big = n > 5000;
        // flat: exact slice, slack after, offset before; budgets around the fast-path thresholds
        let bsets = [
            Budget::Random(vec![0, 1, 2, 3, 4, 5]),
            Budget::Random(vec![257, 258, 259, 260, 261]),
            Budget::Random(vec![1, 2, 258, 259, 1000, usize::MAX]),
            Budget::Fixed(3),
            Budget::Unlimited,
        ];
        for (bi, b) in bsets.iter().enumerate() {
            if big && bi == 0 || big && bi == 3 { continue; }
            let ch = if bi % 2 == 0 { vec![s.z.len()] } else { gen::chunks("rand", s.z.len(), &mut r) };
            drive_flat_off(tr, 1, &s.z, bf, &ch, b, n, 0, false, true, &mut r);
            drive_flat_off(tr, 2, &s.z, bf, &ch, b, n + 1 + r.gen_range(0..300), 0, false, true, &mut r);
            let off = 1 + r.gen_range(0..400);
            drive_flat_off(tr, 3, &s.z, bf, &ch, b, off + n + r.gen_range(0..3), off, false, true, &mut r);
            drive_ring(tr, 4, &s.z, bf, &ch, b, 32768, true, &mut r);
        }
        // too-small flat buffers: HasMoreOutput exactly when full
        if n > 0 {
            for short in [1usize, 2, 3, 258, 259, n / 2, n - 1] {
                if short < n {
                    drive_flat_off(tr, 5, &s.z, bf, &[s.z.len()], &Budget::Unlimited, short, 0, false, false, &mut r);
                }
            }
        }
        if !big {
            let nn = n as i64;
            vec_fns(tr, &s.z, s.zlib, &[0, nn - 1, nn, nn + 1, 1 << 30, -1]);
        } else {
            let nn = n as i64;
            vec_fns(tr, &s.z, s.zlib, &[nn, nn - 1]);
        }
    }
}

/// C13: streaming inflate protocol over random call sequences and canonical loops.
pub fn scn_inflate_protocol(o: &Opts, tr: &mut Tr, prop: &str) {
    let mut r = gen::rng(o.seed, 1313);
    bulk_decode(o, tr, prop, &mut gen::rng(o.seed, 13130), 2000, 20000);
    let srcs = sources(o, &mut r, true);
    let mut idx = 0;
    for s in &srcs {
        let big = s.p.len() > 5000;
        let fmt = if s.zlib { DataFormat::Zlib } else { DataFormat::Raw };
        // kinds: valid, valid+trailing, truncated, corrupt
        for kind in 0..4 {
            if big && kind == 3 { continue; }
            idx += 1;
            let (z, p, extra, kname): (Vec<u8>, Option<&[u8]>, serde_json::Value, &str) = match kind {
                0 => (s.z.clone(), Some(&s.p[..]), json!({}), "valid"),
                1 => { let mut z = s.z.clone(); z.extend_from_slice(&[0xAB, 0x00, 0xFF, 0x01][..1 + idx % 4]); (z, Some(&s.p[..]), json!({}), "trailing") }
                2 => { if s.z.is_empty() { continue; } let c = r.gen_range(0..s.z.len()); (s.z[..c].to_vec(), Some(&s.p[..]), json!({"prefix": true}), "truncated") }
                _ => { let (m, _) = mutate(&s.z, &mut r); (m, None, json!({"cap": 20000}), "corrupt") }
            };
            tr.case(&format!("ip-{}-{}-{}", s.name, kname, idx), prop, json!({"zlen": z.len(), "kind": kname}));
            tr.ev(stream_event(&z, p, s.zlib, extra));
            let nrand = if big { 2 } else if o.thorough { 12 } else { 5 };
            for k in 0..nrand {
                drive_inflate_random(tr, 1 + (k % 8) as u32, &z, fmt, if big { 40 } else { 4 + r.gen_range(0..30) }, &mut r);
            }
            // canonical loops
            drive_inflate(tr, 9, &z, fmt, &gen::chunks("rand", z.len(), &mut r), &[1, 3, 1000, 70000], false, &mut r);
            drive_inflate(tr, 10, &z, fmt, &gen::chunks("rand", z.len(), &mut r), &[3, 70000], true, &mut r);
            if !big {
                drive_inflate(tr, 11, &z, fmt, &gen::chunks("fixed1", z.len(), &mut r), &[1], false, &mut r);
            }
            drive_inflate(tr, 12, &z, fmt, &[z.len()], &[s.p.len() + 64], true, &mut r);
        }
    }
}

/// C03 / C04: streams generated by TLC from spec/DeflateGen.tla (one JSON record per line:
/// z, p, zlib, expect, why, feats), replayed through every decoder entry point.
pub fn scn_genstreams(o: &Opts, tr: &mut Tr, prop: &str) {
    let mut r = gen::rng(o.seed, 333);
    let path = match &o.input {
        Some(p) => p.clone(),
        None => return,
    };
    let text = std::fs::read_to_string(&path).unwrap_or_default();
    for (i, line) in text.lines().enumerate() {
        let v: serde_json::Value = match serde_json::from_str(line) {
            Ok(v) => v,
            Err(_) => continue,
        };
        let get = |k: &str| -> Vec<u8> { v[k].as_array().map(|a| a.iter().map(|x| x.as_u64().unwrap_or(0) as u8).collect()).unwrap_or_default() };
        let z = get("z");
        let p = get("p");
        let zlib = v["zlib"].as_bool().unwrap_or(false);
        let expect = v["expect"].as_str().unwrap_or("done").to_string();
        let why = v["why"].as_str().unwrap_or("").to_string();
        let valid = expect == "done";
        if (prop == "C03") != valid {
            continue;
        }
        let feats: Vec<String> = v["feats"].as_array().map(|a| a.iter().filter_map(|x| x.as_str().map(|s| s.to_string())).collect()).unwrap_or_default();
        tr.case(&format!("gen-{}-{}", i, if valid { "valid".to_string() } else { why.clone() }), prop,
                json!({"zlen": z.len(), "plen": p.len(), "feats": feats}));
        tr.ev(stream_event(&z, Some(&p), zlib, json!({})));
        tr.ev(json!({"ev": "gen_expect", "expect": expect, "why": why}));
        let bf = base_flags(zlib);
        let n = p.len();
        let big = n > 5000;
        let osz = if valid { n } else { n + 70000 };
        drive_flat(tr, 1, &z, bf, &[z.len()], &Budget::Unlimited, osz, false, valid, &mut r);
        drive_flat(tr, 2, &z, bf, &gen::chunks("fixed1", z.len(), &mut r), &Budget::Unlimited, osz + 1, false, valid, &mut r);
        drive_flat(tr, 3, &z, bf, &gen::chunks("rand", z.len(), &mut r), &Budget::Random(vec![1, 2, 3, 258, 259, usize::MAX]), osz + 1, false, valid, &mut r);
        tr.ev(json!({"ev": "equiv", "a": 1, "b": 2}));
        tr.ev(json!({"ev": "equiv", "a": 1, "b": 3}));
        drive_ring(tr, 4, &z, bf, &gen::chunks("rand", z.len(), &mut r), &Budget::Unlimited, 32768, valid, &mut r);
        drive_ring(tr, 5, &z, bf, &gen::chunks("fixed1", z.len(), &mut r), &Budget::Random(vec![1, 5, 259, usize::MAX]), 32768, valid, &mut r);
        tr.ev(json!({"ev": "equiv", "a": 4, "b": 5}));
        if !big {
            vec_fns(tr, &z, zlib, &[-1, n as i64]);
            slice_iter(tr, &z, zlib, false, 0, osz);
            slice_iter(tr, &z, zlib, false, 1 + r.gen_range(0..5), osz + 1);
        } else {
            vec_fns(tr, &z, zlib, &[-1]);
        }
        let fmt = if zlib { DataFormat::Zlib } else { DataFormat::Raw };
        drive_inflate(tr, 1, &z, fmt, &gen::chunks("rand", z.len(), &mut r), &[1, 7, 300, 70000], false, &mut r);
        drive_inflate(tr, 2, &z, fmt, &[z.len()], &[n + 70000], true, &mut r);
        if !big {
            drive_inflate(tr, 3, &z, fmt, &gen::chunks("fixed1", z.len(), &mut r), &[1, 2], false, &mut r);
        }
    }
}

/// Cheap exploration for the decoder side: many more (stream, schedule) pairs are executed; a case
/// is written out (and then judged by TLC) only if the harness sees something off: the run did not
/// end in Done with exactly the plaintext and exactly the stream length consumed.
pub fn bulk_decode(o: &Opts, tr: &mut Tr, prop: &str, r: &mut StdRng, n_quick: usize, n_thorough: usize) {
    let n = if o.thorough { n_thorough } else { n_quick };
    let kinds = ["text", "rand", "alpha4", "zeros", "period7", "runs", "mixed", "xx", "planted300", "litmatch"];
    let budgets = [
        Budget::Unlimited,
        Budget::Random(vec![0, 1, 2, usize::MAX]),
        Budget::Random(vec![1, 2, 3, 257, 258, 259, 260]),
        Budget::Fixed(259),
        Budget::Random(vec![1, 5, 100, 5000]),
        Budget::Random(vec![258, 259, 1000]),
    ];
    for i in 0..n {
        let kind = kinds[i % kinds.len()];
        let size = match i % 7 { 0 => r.gen_range(0..20), 1 => r.gen_range(20..400), 2 | 3 => r.gen_range(400..5000), 4 => r.gen_range(5000..40000),
                                 5 => r.gen_range(32000..34000), _ => r.gen_range(0..2000) };
        let d = gen::data(kind, size, r);
        let zl = i % 2 == 0;
        let cfg = Cfg { zlib: zl, level: [0u8, 1, 2, 6, 9][i % 5], strat: [0usize, 0, 0, 4, 2, 3, 1][i % 7], wbits: 15, api: "params" };
        let mut z = make_stream(&d, &cfg, i % 3 == 1, r);
        let exact = z.len();
        let trail = if i % 5 == 4 { r.gen_range(1..9) } else { 0 };
        for _ in 0..trail { z.push(r.gen()); }
        let bf = base_flags(zl);
        tr.hold();
        tr.case(&format!("bulk-{}-{}-{}", i, kind, size), prop, json!({"zlen": z.len(), "plen": d.len()}));
        tr.ev(stream_event(&z, Some(&d), zl, json!({})));
        let b = &budgets[i % budgets.len()];
        let ch = gen::chunks(["rand", "fixed1", "rand", "fixed3", "all"][i % 5], z.len(), r);
        let mut sus = false;
        let chk = |res: &DecResult| -> bool {
            !(res.status == Some(miniz_oxide::inflate::TINFLStatus::Done) && res.out == d && res.consumed == exact)
        };
        match i % 4 {
            0 => { let res = drive_flat(tr, 1, &z, bf, &ch, b, d.len() + 1, false, true, r); sus |= chk(&res); }
            1 => { let res = drive_ring(tr, 1, &z, bf, &ch, b, 32768, true, r); sus |= chk(&res); }
            2 => { let off = r.gen_range(0..300); let res = drive_flat_off(tr, 1, &z, bf, &ch, b, off + d.len() + 1 + r.gen_range(0..2), off, false, true, r); sus |= chk(&res); }
            _ => {
                let fmt = if zl { DataFormat::Zlib } else { DataFormat::Raw };
                let res = drive_inflate(tr, 1, &z, fmt, &ch, &[[1usize, 2, 3][i % 3], 64, 1000, 40000][..(1 + i % 4)], false, r);
                sus |= !(res.out == d && res.consumed == exact);
            }
        }
        tr.release(sus);
    }
}

/// C09 (decode side): every two-byte zlib header, flat and ring of each size; corrupted trailers.
pub fn scn_zlibframe(o: &Opts, tr: &mut Tr, prop: &str) {
    use miniz_oxide::inflate::core::{decompress, DecompressorOxide};
    let mut r = gen::rng(o.seed, 909);
    // 1. all 65536 headers in front of a minimal valid body (empty fixed block, Adler-32 of nothing)
    tr.case("zhdr-all", prop, json!({}));
    for cmf in 0..=255u32 {
        for flg in 0..=255u32 {
            let z = [cmf as u8, flg as u8, 0x03, 0x00, 0, 0, 0, 1];
            let run = |size: usize, wrap: bool| -> String {
                let mut d = DecompressorOxide::new();
                let mut out = vec![0u8; size];
                let flags = TINFL_FLAG_PARSE_ZLIB_HEADER | if wrap { 0 } else { TINFL_FLAG_USING_NON_WRAPPING_OUTPUT_BUF };
                let (st, _, _) = decompress(&mut d, &z, &mut out, 0, flags);
                st_name(st)
            };
            let flat = run(16, false);
            // rings larger than any window RFC 1950 allows, for every header with the deflate method
            let top = if cmf % 16 == 8 { 17 } else { 15 };
            let rings: Vec<serde_json::Value> = (8..=top).map(|k| json!([1usize << k, run(1usize << k, true)])).collect();
            tr.ev(json!({"ev": "zhdr", "cmf": cmf, "flg": flg, "flat": flat, "rings": rings}));
        }
    }
    // 2. corrupted trailers under chunkings, with and without the ignore-checksum options
    let srcs = sources(o, &mut r, false);
    let mut idx = 0;
    for s in srcs.iter().filter(|s| s.zlib) {
        for k in 0..4usize {
            idx += 1;
            let mut z = s.z.clone();
            let n = z.len();
            let bit = 1u8 << r.gen_range(0..8);
            z[n - 1 - k] ^= bit;
            let bf = TINFL_FLAG_PARSE_ZLIB_HEADER;
            tr.case(&format!("ztr-{}-b{}-{}", s.name, k, idx), prop, json!({"zlen": n}));
            tr.ev(stream_event(&z, Some(&s.p), true, json!({})));
            let pl = s.p.len();
            drive_flat(tr, 1, &z, bf, &[n], &Budget::Unlimited, pl + 4, false, true, &mut r);
            // cuts around the end of the deflate data and inside the trailer
            for back in 1..=6usize.min(n) {
                drive_flat(tr, 2, &z, bf, &[n - back, back], &Budget::Unlimited, pl + 4, false, true, &mut r);
                tr.ev(json!({"ev": "equiv", "a": 1, "b": 2}));
            }
            drive_flat(tr, 3, &z, bf, &gen::chunks("fixed1", n, &mut r), &Budget::Random(vec![1, 2, usize::MAX]), pl + 4, false, true, &mut r);
            drive_ring(tr, 4, &z, bf, &gen::chunks("rand", n, &mut r), &Budget::Unlimited, 32768, true, &mut r);
            drive_inflate(tr, 1, &z, DataFormat::Zlib, &gen::chunks("rand", n, &mut r), &[1, 100, 40000], false, &mut r);
            drive_inflate(tr, 2, &z, DataFormat::Zlib, &[n], &[pl + 100], true, &mut r);
            vec_fns(tr, &z, true, &[-1]);
            slice_iter(tr, &z, true, false, 1 + r.gen_range(0..9), pl + 1);
            // same corrupted stream, checksum ignored: must decode
            tr.case(&format!("ztr-ign-{}-b{}-{}", s.name, k, idx), prop, json!({"zlen": n}));
            tr.ev(stream_event(&z, Some(&s.p), true, json!({"ignore_adler": true})));
            drive_flat(tr, 1, &z, bf | TINFL_FLAG_IGNORE_ADLER32, &[n], &Budget::Unlimited, pl + 4, false, true, &mut r);
            drive_flat(tr, 2, &z, bf | TINFL_FLAG_IGNORE_ADLER32, &gen::chunks("rand", n, &mut r), &Budget::Unlimited, pl + 4, false, true, &mut r);
            drive_inflate(tr, 1, &z, DataFormat::ZLibIgnoreChecksum, &gen::chunks("rand", n, &mut r), &[7, 40000], false, &mut r);
            slice_iter(tr, &z, true, true, 1 + r.gen_range(0..9), pl + 1);
        }
    }
}
