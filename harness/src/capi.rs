//! C17: the C ABI shim, called through its extern "C" signatures with buffers placed against
//! PROT_NONE guard pages, every call mirrored by the corresponding Rust call on a twin object.
use crate::gen;
use crate::tr::{bytes, Tr};
use crate::Opts;
use miniz_oxide::deflate::core::{create_comp_flags_from_zip_params, deflate_flags, CompressorOxide};
use miniz_oxide::deflate::stream::deflate;
use miniz_oxide::inflate::stream::{inflate, InflateState};
use miniz_oxide::{MZFlush, MZResult};
use miniz_oxide_c_api::*;
use rand::rngs::StdRng;
use rand::Rng;
use serde_json::{json, Value};
use std::os::raw::{c_int, c_void};

extern "C" {
    fn tinfl_decompress_mem_to_mem(out: *mut c_void, out_len: usize, src: *const c_void, src_len: usize, flags: c_int) -> usize;
    fn tinfl_decompress_mem_to_heap(src: *const c_void, src_len: usize, out_len: *mut usize, flags: c_int) -> *mut c_void;
    fn tdefl_compress_mem_to_mem(out: *mut c_void, out_len: usize, src: *const c_void, src_len: usize, flags: c_int) -> usize;
    fn tdefl_compress_mem_to_heap(src: *const c_void, src_len: usize, out_len: *mut usize, flags: c_int) -> *mut c_void;
    fn tdefl_allocate() -> *mut c_void;
    fn tdefl_deallocate(c: *mut c_void);
    fn tdefl_init(d: *mut c_void, f: Option<unsafe extern "C" fn(*const c_void, c_int, *mut c_void) -> i32>, user: *mut c_void, flags: c_int) -> i32;
    fn tdefl_compress(d: *mut c_void, in_buf: *const c_void, in_size: *mut usize, out_buf: *mut c_void, out_size: *mut usize, flush: i32) -> i32;
    fn tdefl_compress_buffer(d: *mut c_void, in_buf: *const c_void, in_size: usize, flush: i32) -> i32;
    fn tdefl_get_adler32(d: *mut c_void) -> u32;
    fn tdefl_get_prev_return_status(d: *mut c_void) -> i32;
    fn tinfl_decompressor_alloc() -> *mut c_void;
    fn tinfl_decompressor_free(c: *mut c_void);
    fn tinfl_decompress(r: *mut c_void, in_buf: *const u8, in_buf_size: *mut usize, out_buf_start: *mut u8, out_buf_next: *mut u8,
                        out_buf_size: *mut usize, flags: u32) -> i32;
}

unsafe extern "C" fn collect_cb(buf: *const c_void, len: c_int, user: *mut c_void) -> i32 {
    let v = &mut *(user as *mut Vec<u8>);
    v.extend_from_slice(std::slice::from_raw_parts(buf as *const u8, len as usize));
    1
}

/// tdefl_init / tdefl_compress / tdefl_compress_buffer against CompressorOxide + compress().
unsafe fn tdefl_stream(tr: &mut Tr, data: &[u8], flags: u32, callback: bool, r: &mut StdRng) {
    use miniz_oxide::deflate::core::{compress, compress_to_output, TDEFLFlush};
    let d = tdefl_allocate();
    if d.is_null() {
        return;
    }
    let mut collected: Vec<u8> = Vec::new();
    // an earlier life of the same compressor object in the other output mode (callback / caller
    // buffers), abandoned mid-stream: tdefl_init must leave nothing of it behind
    let mut junk: Vec<u8> = Vec::new();
    if data.len() % 3 == 1 {
        let pre = data.len().min(40);
        if callback {
            tdefl_init(d, None, std::ptr::null_mut(), (flags ^ 0x1000) as c_int);
            let mut isz = pre;
            let mut osz = 64usize;
            let mut ob = vec![0u8; 64];
            tdefl_compress(d, data.as_ptr() as *const c_void, &mut isz, ob.as_mut_ptr() as *mut c_void, &mut osz, 2);
        } else {
            tdefl_init(d, Some(collect_cb), &mut junk as *mut Vec<u8> as *mut c_void, (flags ^ 0x1000) as c_int);
            tdefl_compress_buffer(d, data.as_ptr() as *const c_void, pre, 2);
        }
    }
    let rc = if callback {
        tdefl_init(d, Some(collect_cb), &mut collected as *mut Vec<u8> as *mut c_void, flags as c_int)
    } else {
        tdefl_init(d, None, std::ptr::null_mut(), flags as c_int)
    };
    tr.ev(json!({"ev": "c_misuse", "what": "tdefl_init must succeed (0)", "ret": if rc == 0 { -1 } else { 0 }}));
    let mut twin = CompressorOxide::new(flags);
    let mut tw_collected: Vec<u8> = Vec::new();
    let mut pos = 0usize;
    let fl_of = |f: i32| match f { 2 => TDEFLFlush::Sync, 3 => TDEFLFlush::Full, 4 => TDEFLFlush::Finish, _ => TDEFLFlush::None };
    for _ in 0..3000 {
        let rem = data.len() - pos;
        let ch = match r.gen_range(0..4) { 0 => 0, 1 => r.gen_range(0..100).min(rem), _ => rem };
        let flush = if ch == rem && r.gen_range(0..2) == 0 { 4 } else { [0, 0, 0, 2, 3][r.gen_range(0..5)] };
        let gin = Guarded::from(&data[pos..pos + ch], r.gen());
        if callback {
            let before = collected.len();
            let tbefore = tw_collected.len();
            let st = tdefl_compress_buffer(d, gin.ptr as *const c_void, ch, flush);
            let (ts, tc) = compress_to_output(&mut twin, &data[pos..pos + ch], fl_of(flush), |b: &[u8]| { tw_collected.extend_from_slice(b); true });
            tr.ev(json!({"ev": "c_tdefl", "mode": "callback", "in_len": ch, "out_len": -1, "flush": flush, "status": st,
                "consumed": ch, "written": collected.len() - before,
                "twin": {"status": ts as i32, "consumed": tc, "written": tw_collected.len() - tbefore},
                "data": bytes(&collected[before..]), "twin_data": bytes(&tw_collected[tbefore..]),
                "adler": hl(tdefl_get_adler32(d) as u64), "twin_adler": hl(twin.adler32() as u64),
                "prev": tdefl_get_prev_return_status(d), "twin_prev": twin.prev_return_status() as i32}));
            pos += ch;
            if st != 0 {
                break;
            }
        } else {
            let ol = match r.gen_range(0..5) { 0 => 1, 1 => r.gen_range(1..200), _ => 100_000 };
            let gout = Guarded::new(ol, r.gen());
            let mut in_sz = ch;
            let mut out_sz = ol;
            let st = tdefl_compress(d, gin.ptr as *const c_void, &mut in_sz, gout.ptr as *mut c_void, &mut out_sz, flush);
            let mut tout = vec![0u8; ol];
            let (ts, tc, tw) = compress(&mut twin, &data[pos..pos + ch], &mut tout, fl_of(flush));
            let okc = in_sz <= ch && out_sz <= ol;
            tr.ev(json!({"ev": "c_tdefl", "mode": "buffer", "in_len": ch, "out_len": ol, "flush": flush, "status": st,
                "consumed": in_sz, "written": out_sz,
                "twin": {"status": ts as i32, "consumed": tc, "written": tw},
                "data": bytes(if okc { &gout.slice()[..out_sz] } else { &[] }), "twin_data": bytes(&tout[..tw.min(ol)]),
                "adler": hl(tdefl_get_adler32(d) as u64), "twin_adler": hl(twin.adler32() as u64),
                "prev": tdefl_get_prev_return_status(d), "twin_prev": twin.prev_return_status() as i32}));
            if !okc {
                break;
            }
            pos += in_sz;
            if st != 0 {
                break;
            }
        }
    }
    // misuse: null compressor, null input with a size, null output with a size
    let mut one = 1usize;
    let mut osz = 10usize;
    let rc = tdefl_compress(std::ptr::null_mut(), data.as_ptr() as *const c_void, &mut one, std::ptr::null_mut(), &mut osz, 0);
    tr.ev(json!({"ev": "c_misuse", "what": "tdefl_compress null compressor", "ret": rc}));
    tdefl_deallocate(d);
}

/// tinfl_decompress with out_buf_start / out_buf_next arithmetic, chunked input and output budgets,
/// mirrored call by call on a Rust decoder.
unsafe fn tinfl_stream(tr: &mut Tr, z: &[u8], plen: usize, zlib: bool, r: &mut StdRng) {
    use miniz_oxide::inflate::core::{decompress, DecompressorOxide};
    let d = tinfl_decompressor_alloc();
    if d.is_null() {
        return;
    }
    let mut twin = DecompressorOxide::new();
    let cap = plen + 3;
    let gout = Guarded::new(cap, true);
    let mut tout = vec![0xEEu8; cap];
    let (mut ip, mut op) = (0usize, 0usize);
    for _ in 0..2000 {
        let rem = z.len() - ip;
        let ch = match r.gen_range(0..4) { 0 => 1.min(rem), 1 => r.gen_range(0..40).min(rem), _ => rem };
        let more = ip + ch < z.len();
        let budget = match r.gen_range(0..4) { 0 => 1, 1 => r.gen_range(0..300), _ => cap }.min(cap - op);
        let flags = (if zlib { 1 } else { 0 }) | 4 | if more { 2 } else { 0 };
        let gin = Guarded::from(&z[ip..ip + ch], r.gen());
        let mut in_sz = ch;
        let mut out_sz = budget;
        let st = tinfl_decompress(d, gin.ptr, &mut in_sz, gout.ptr, gout.ptr.add(op), &mut out_sz, flags);
        let (ts, tc, tw) = decompress(&mut twin, &z[ip..ip + ch], &mut tout[..op + budget], op, flags);
        let okc = in_sz <= ch && out_sz <= budget;
        tr.ev(json!({"ev": "c_tinfl", "in_len": ch, "budget": budget, "flags": flags, "status": st, "consumed": in_sz, "written": out_sz,
            "twin": {"status": ts as i32, "consumed": tc, "written": tw},
            "data": bytes(if okc { &gout.slice()[op..op + out_sz] } else { &[] }), "twin_data": bytes(&tout[op..op + tw.min(budget)])}));
        if !okc {
            break;
        }
        ip += in_sz;
        op += out_sz;
        if st <= 0 || (st == 2 && op == cap) {
            break;
        }
    }
    tinfl_decompressor_free(d);
}

const PAGE: usize = 4096;

/// A buffer whose end (or start) touches an inaccessible page.
pub struct Guarded {
    base: *mut u8,
    total: usize,
    pub ptr: *mut u8,
    pub len: usize,
}

impl Guarded {
    pub fn new(len: usize, at_end: bool) -> Guarded {
        let body = (len + PAGE - 1) / PAGE * PAGE + PAGE;
        let total = body + 2 * PAGE;
        unsafe {
            let base = libc::mmap(std::ptr::null_mut(), total, libc::PROT_READ | libc::PROT_WRITE,
                                  libc::MAP_PRIVATE | libc::MAP_ANONYMOUS, -1, 0) as *mut u8;
            assert!(base as isize != -1);
            libc::mprotect(base as *mut c_void, PAGE, libc::PROT_NONE);
            libc::mprotect(base.add(PAGE + body) as *mut c_void, PAGE, libc::PROT_NONE);
            let ptr = if at_end { base.add(PAGE + body - len) } else { base.add(PAGE) };
            std::ptr::write_bytes(base.add(PAGE), 0xEE, body);
            Guarded { base, total, ptr, len }
        }
    }
    pub fn from(data: &[u8], at_end: bool) -> Guarded {
        let g = Guarded::new(data.len(), at_end);
        unsafe { std::ptr::copy_nonoverlapping(data.as_ptr(), g.ptr, data.len()) };
        g
    }
    pub fn slice(&self) -> &[u8] {
        unsafe { std::slice::from_raw_parts(self.ptr, self.len) }
    }
}
impl Drop for Guarded {
    fn drop(&mut self) {
        unsafe { libc::munmap(self.base as *mut c_void, self.total) };
    }
}

fn code(r: MZResult) -> i32 {
    match r {
        Ok(s) => s as i32,
        Err(e) => e as i32,
    }
}

fn hl(v: u64) -> Value {
    json!([(v >> 16) & 0xffff, v & 0xffff])
}

fn fields(s: &mz_stream, in_base: usize, out_base: usize) -> Value {
    json!({"avail_in": s.avail_in, "avail_out": s.avail_out, "total_in": s.total_in as u64, "total_out": s.total_out as u64,
           "in_off": (s.next_in as usize).wrapping_sub(in_base) as i64, "out_off": (s.next_out as usize).wrapping_sub(out_base) as i64,
           "adler": hl(s.adler as u64), "has_state": s.state.is_some(), "wide_adler": (s.adler as u64) > 0xffff_ffff})
}

enum Twin {
    Def(Box<CompressorOxide>),
    Inf(Box<InflateState>),
}

/// One deflate or inflate stream driven through mz_deflate / mz_inflate with a random schedule.
fn stream_case(tr: &mut Tr, id: &str, prop: &str, deflate_kind: bool, data: &[u8], level: i32, wbits: i32, strategy: i32,
               r: &mut StdRng) {
    stream_case_p(tr, id, prop, deflate_kind, data, level, wbits, strategy, None, r)
}

/// `plain`: for inflate cases, the plaintext the stream is known to define (the acceptor then
/// supplies the exact encoded length the totals must show at stream end - C06 through the C API)
fn stream_case_p(tr: &mut Tr, id: &str, prop: &str, deflate_kind: bool, data: &[u8], level: i32, wbits: i32, strategy: i32,
                 plain: Option<&[u8]>, r: &mut StdRng) {
    tr.case(id, prop, json!({"kind": if deflate_kind { "deflate" } else { "inflate" }, "n": data.len(), "wbits": wbits}));
    if let Some(p) = plain {
        tr.ev(crate::infl::stream_event(data, Some(p), wbits > 0, json!({})));
    }
    let mut s = mz_stream::default();
    let rc = unsafe {
        if deflate_kind { mz_deflateInit2(&mut s, level, 8, wbits, 9, strategy) } else { mz_inflateInit2(&mut s, wbits) }
    };
    tr.ev(json!({"ev": "c_init", "kind": if deflate_kind { "deflate" } else { "inflate" }, "level": level, "method": 8,
                 "wbits": wbits, "mem_level": 9, "strategy": strategy, "ret": rc, "after": fields(&s, 0, 0)}));
    if rc != 0 {
        return;
    }
    let mut twin = if deflate_kind {
        let flags = deflate_flags::TDEFL_COMPUTE_ADLER32 | create_comp_flags_from_zip_params(level, wbits, strategy);
        Twin::Def(Box::new(CompressorOxide::new(flags)))
    } else {
        Twin::Inf(InflateState::new_boxed_with_window_bits(wbits))
    };
    let mut pos = 0usize;
    let mut calls = 0;
    let mut finishing = false;
    loop {
        calls += 1;
        if calls > 3000 {
            tr.ev(json!({"ev": "hang", "where": "c stream loop"}));
            break;
        }
        let rem = data.len() - pos;
        let ch = match r.gen_range(0..6) { 0 => 0, 1 => 1, 2 => r.gen_range(0..64), _ => rem }.min(rem);
        let ol = match r.gen_range(0..7) { 0 => 0, 1 => 1, 2 => 5, 3 => r.gen_range(1..300), _ => 100_000 };
        let flush = if finishing { 4 } else {
            match r.gen_range(0..12) { 0 => 2, 1 => 3, 2 => 1, 3 | 4 => 4, _ => 0 }
        };
        if flush == 4 && ol > 0 && ch == rem {
            finishing = deflate_kind;
        }
        let gin = Guarded::from(&data[pos..pos + ch], r.gen());
        let gout = Guarded::new(ol, r.gen());
        s.next_in = gin.ptr;
        s.avail_in = ch as u32;
        s.next_out = gout.ptr;
        s.avail_out = ol as u32;
        if r.gen_range(0..6) == 0 {
            // a call C can express but the stream must refuse, in the middle of the stream: it has to
            // return an error code and leave the stream usable - the calls that follow are still
            // compared with the Rust twin, which never saw the refused call
            let before = fields(&s, gin.ptr as usize, gout.ptr as usize);
            let k = r.gen_range(0..5);
            let (what, rc) = unsafe {
                match k {
                    0 => ("call of the other kind", if deflate_kind { mz_inflate(&mut s, 0) } else { mz_deflate(&mut s, 0) }),
                    1 => ("end of the other kind", if deflate_kind { mz_inflateEnd(&mut s) } else { mz_deflateEnd(&mut s) }),
                    2 => {
                        s.zalloc = Some(fake_alloc);
                        let rc = if deflate_kind { mz_deflate(&mut s, 0) } else { mz_inflate(&mut s, 0) };
                        s.zalloc = None;
                        ("call with a custom allocator set", rc)
                    }
                    3 => {
                        s.zfree = Some(fake_free);
                        let rc = if deflate_kind { mz_deflateEnd(&mut s) } else { mz_inflateEnd(&mut s) };
                        s.zfree = None;
                        ("end with a custom free set", rc)
                    }
                    _ => ("out-of-range flush value", if deflate_kind { mz_deflate(&mut s, 7) } else { mz_inflate(&mut s, 9) }),
                }
            };
            let after = fields(&s, gin.ptr as usize, gout.ptr as usize);
            tr.ev(json!({"ev": "c_misuse_mid", "what": what, "ret": rc, "before": before, "after": after}));
        }
        let before = fields(&s, gin.ptr as usize, gout.ptr as usize);
        let rc = unsafe { if deflate_kind { mz_deflate(&mut s, flush) } else { mz_inflate(&mut s, flush) } };
        let after = fields(&s, gin.ptr as usize, gout.ptr as usize);
        let used = (s.next_in as usize).wrapping_sub(gin.ptr as usize);
        let wrote = (s.next_out as usize).wrapping_sub(gout.ptr as usize);
        // twin: the corresponding Rust call on the same data
        let mut tout = vec![0u8; ol];
        let tres = match MZFlush::new(flush) {
            Err(e) => (e as i32, 0usize, 0usize),
            Ok(f) => {
                let res = match &mut twin {
                    Twin::Def(c) => deflate(c, &data[pos..pos + ch], &mut tout, f),
                    Twin::Inf(st) => inflate(st, &data[pos..pos + ch], &mut tout, f),
                };
                (code(res.status), res.bytes_consumed, res.bytes_written)
            }
        };
        let ok_counts = used <= ch && wrote <= ol;
        tr.ev(json!({"ev": "c_call", "fn": if deflate_kind { "mz_deflate" } else { "mz_inflate" }, "flush": flush,
            "zlib": wbits > 0, "before": before, "after": after, "ret": rc,
            "twin": {"ret": tres.0, "consumed": tres.1, "written": tres.2},
            "data": bytes(if ok_counts { &gout.slice()[..wrote] } else { &[] }),
            "twin_data": bytes(&tout[..tres.2.min(ol)]),
            "in_data": bytes(if ok_counts { &data[pos..pos + used] } else { &[] })}));
        if !ok_counts {
            break;
        }
        pos += used;
        if rc == 1 || rc < 0 && rc != -5 {
            break;
        }
        if rc == -5 && ch == rem && (flush == 4 || !deflate_kind) && wrote == 0 && used == 0 && ol > 0 {
            break; // truncated input under inflate
        }
    }
    // reset / end
    if deflate_kind && r.gen_range(0..2) == 0 {
        let rc = unsafe { mz_deflateReset(&mut s) };
        tr.ev(json!({"ev": "c_reset", "ret": rc, "after": fields(&s, 0, 0)}));
    }
    let rc = unsafe { if deflate_kind { mz_deflateEnd(&mut s) } else { mz_inflateEnd(&mut s) } };
    tr.ev(json!({"ev": "c_end", "ret": rc, "after": fields(&s, 0, 0)}));
}

unsafe extern "C" fn fake_alloc(_o: *mut c_void, _n: usize, _s: usize) -> *mut c_void {
    std::ptr::null_mut()
}
unsafe extern "C" fn fake_free(_o: *mut c_void, _p: *mut c_void) {}

fn misuse(tr: &mut Tr, prop: &str, r: &mut StdRng) {
    tr.case("c-misuse", prop, json!({}));
    let mut log = |tr: &mut Tr, what: &str, rc: i32| tr.ev(json!({"ev": "c_misuse", "what": what, "ret": rc}));
    unsafe {
        let null: *mut mz_stream = std::ptr::null_mut();
        log(tr, "deflateInit null stream", mz_deflateInit(null, 6));
        log(tr, "deflateInit2 null stream", mz_deflateInit2(null, 6, 8, 15, 9, 0));
        log(tr, "inflateInit null stream", mz_inflateInit(null));
        log(tr, "inflateInit2 null stream", mz_inflateInit2(null, 15));
        log(tr, "deflate null stream", mz_deflate(null, 0));
        log(tr, "inflate null stream", mz_inflate(null, 0));
        log(tr, "deflateEnd null stream", mz_deflateEnd(null));
        log(tr, "inflateEnd null stream", mz_inflateEnd(null));
        log(tr, "deflateReset null stream", mz_deflateReset(null));
        // parameter ranges around the legal values
        for method in [0, 7, 9, -1] {
            let mut s = mz_stream::default();
            log(tr, &format!("deflateInit2 method {}", method), mz_deflateInit2(&mut s, 6, method, 15, 9, 0));
        }
        for wb in [0, 1, 8, 14, 16, -14, -16, 47, -1] {
            let mut s = mz_stream::default();
            log(tr, &format!("deflateInit2 window_bits {}", wb), mz_deflateInit2(&mut s, 6, 8, wb, 9, 0));
            let mut s2 = mz_stream::default();
            log(tr, &format!("inflateInit2 window_bits {}", wb), mz_inflateInit2(&mut s2, wb));
        }
        for ml in [0, 10, -1, 100] {
            let mut s = mz_stream::default();
            log(tr, &format!("deflateInit2 mem_level {}", ml), mz_deflateInit2(&mut s, 6, 8, 15, ml, 0));
        }
        // custom allocators are refused
        let mut s = mz_stream::default();
        s.zalloc = Some(fake_alloc);
        log(tr, "deflateInit custom zalloc", mz_deflateInit(&mut s, 6));
        let mut s = mz_stream::default();
        s.zfree = Some(fake_free);
        log(tr, "inflateInit custom zfree", mz_inflateInit(&mut s));
        // stream of the other kind
        let mut s = mz_stream::default();
        let _ = mz_deflateInit(&mut s, 6);
        let gin = Guarded::from(b"hello", true);
        let gout = Guarded::new(64, true);
        s.next_in = gin.ptr; s.avail_in = 5; s.next_out = gout.ptr; s.avail_out = 64;
        log(tr, "inflate on deflate stream", mz_inflate(&mut s, 0));
        log(tr, "inflateEnd on deflate stream", mz_inflateEnd(&mut s));
        // out-of-range flush values
        for fl in [-1, 5, 6, 7, 100] {
            log(tr, &format!("deflate flush {}", fl), mz_deflate(&mut s, fl));
        }
        // null buffers
        s.next_in = std::ptr::null(); s.avail_in = 0;
        log(tr, "deflate null next_in", mz_deflate(&mut s, 0));
        s.next_in = gin.ptr; s.avail_in = 5; s.next_out = std::ptr::null_mut(); s.avail_out = 0;
        log(tr, "deflate null next_out", mz_deflate(&mut s, 0));
        let _ = mz_deflateEnd(&mut s);
        // calls after End / without Init
        s.next_out = gout.ptr; s.avail_out = 64;
        log(tr, "deflate after end", mz_deflate(&mut s, 0));
        log(tr, "deflateReset after end", mz_deflateReset(&mut s));
        let mut s = mz_stream::default();
        let _ = mz_inflateInit(&mut s);
        s.next_in = gin.ptr; s.avail_in = 5; s.next_out = gout.ptr; s.avail_out = 64;
        log(tr, "deflate on inflate stream", mz_deflate(&mut s, 0));
        log(tr, "deflateReset on inflate stream", mz_deflateReset(&mut s));
        for fl in [-1, 5, 9] {
            log(tr, &format!("inflate flush {}", fl), mz_inflate(&mut s, fl));
        }
        s.next_in = std::ptr::null(); s.avail_in = 0;
        log(tr, "inflate null next_in", mz_inflate(&mut s, 0));
        let _ = mz_inflateEnd(&mut s);
        log(tr, "inflate after end", mz_inflate(&mut s, 0));
        let mut s = mz_stream::default();
        s.next_in = gin.ptr; s.avail_in = 5; s.next_out = gout.ptr; s.avail_out = 64;
        log(tr, "deflate without init", mz_deflate(&mut s, 0));
        log(tr, "inflate without init", mz_inflate(&mut s, 0));
        // one-shot helpers with null length pointers
        log(tr, "compress null dest_len", mz_compress(gout.ptr, std::ptr::null_mut(), gin.ptr, 5));
        log(tr, "uncompress null dest_len", mz_uncompress(gout.ptr, std::ptr::null_mut(), gin.ptr, 5));
        let mut dl: u64 = 64;
        log(tr, "compress2 level 99 (clamped or error, no crash)", { let rc = mz_compress2(gout.ptr, &mut dl as *mut u64 as *mut _, gin.ptr, 5, 99); if rc == 0 { -1 } else { rc } });
        let _ = r;
    }
}

fn oneshots(o: &Opts, tr: &mut Tr, prop: &str, r: &mut StdRng) {
    let kinds = ["text", "rand", "zeros", "mixed"];
    let n = if o.thorough { 200 } else { 60 };
    for i in 0..n {
        let kind = kinds[i % 4];
        let size = match i % 5 { 0 => 0, 1 => r.gen_range(1..40), 2 => r.gen_range(40..2000), 3 => r.gen_range(2000..9000), _ => r.gen_range(0..300) };
        let data = gen::data(kind, size, r);
        let level = [-1i32, 0, 1, 6, 9, 10][i % 6];
        tr.case(&format!("c-one-{}-{}-{}-l{}", i, kind, size, level), prop, json!({}));
        tr.ev(json!({"ev": "input", "p": bytes(&data)}));
        unsafe {
            let bound = mz_compressBound(size as _) as usize;
            let gin = Guarded::from(&data, r.gen());
            // exact bound, and deliberately too small
            for dest_cap in [bound, size / 2, 1] {
                let gout = Guarded::new(dest_cap, true);
                let mut dl = dest_cap as u64;
                let rc = mz_compress2(gout.ptr, &mut dl as *mut u64 as *mut _, gin.ptr, size as _, level);
                let tw = {
                    // the Rust equivalent: deflate() with Finish on a default-window zlib compressor
                    let flags = deflate_flags::TDEFL_COMPUTE_ADLER32 | create_comp_flags_from_zip_params(level, 15, 0);
                    let mut c = CompressorOxide::new(flags);
                    let mut out = vec![0u8; dest_cap];
                    let res = deflate(&mut c, &data, &mut out, MZFlush::Finish);
                    out.truncate(res.bytes_written);
                    (code(res.status), out)
                };
                let n_out = if rc == 0 { (dl as usize).min(dest_cap) } else { 0 };
                tr.ev(json!({"ev": "c_compress", "level": level, "dest_cap": dest_cap, "bound": bound, "ret": rc, "dest_len": dl,
                    "data": bytes(&gout.slice()[..n_out]), "twin_ret": tw.0, "twin_data": bytes(&tw.1), "in_len": size}));
                if rc == 0 {
                    tr.ev(json!({"ev": "stream", "zlib": true, "mode": "verify", "z": bytes(&gout.slice()[..n_out]), "plen": size}));
                    tr.ev(json!({"ev": "c_compressed_valid"}));
                    // and back through mz_uncompress, destination exactly the right size / too small
                    let gz = Guarded::from(&gout.slice()[..n_out], r.gen());
                    for ucap in [size, size.saturating_sub(1), size + 10] {
                        let gd = Guarded::new(ucap, true);
                        let mut ul = ucap as u64;
                        let urc = mz_uncompress(gd.ptr, &mut ul as *mut u64 as *mut _, gz.ptr, n_out as _);
                        let k = if urc == 0 { (ul as usize).min(ucap) } else { 0 };
                        tr.ev(json!({"ev": "c_uncompress", "cap": ucap, "ret": urc, "dest_len": ul, "data": bytes(&gd.slice()[..k])}));
                    }
                    if dest_cap == bound {
                        tinfl_stream(tr, &gout.slice()[..n_out], size, true, r);
                    }
                    // tinfl one-shot helpers
                    let gd = Guarded::new(size, true);
                    let k = tinfl_decompress_mem_to_mem(gd.ptr as *mut c_void, size, gz.ptr as *const c_void, n_out, 1);
                    tr.ev(json!({"ev": "c_mem_to_mem", "dir": "inflate", "cap": size, "ret": k as i64, "data": bytes(&gd.slice()[..k.min(size)])}));
                    if size > 0 {
                        let gd2 = Guarded::new(size - 1, true);
                        let k2 = tinfl_decompress_mem_to_mem(gd2.ptr as *mut c_void, size - 1, gz.ptr as *const c_void, n_out, 1);
                        tr.ev(json!({"ev": "c_mem_to_mem", "dir": "inflate", "cap": size - 1, "ret": k2 as i64, "data": []}));
                    }
                    let mut hl_: usize = 0;
                    let hp = tinfl_decompress_mem_to_heap(gz.ptr as *const c_void, n_out, &mut hl_, 1);
                    let hv = if hp.is_null() { Vec::new() } else { std::slice::from_raw_parts(hp as *const u8, hl_).to_vec() };
                    tr.ev(json!({"ev": "c_mem_to_heap", "dir": "inflate", "isnull": hp.is_null(), "len": hl_, "data": bytes(&hv)}));
                    if !hp.is_null() { miniz_def_free_func(std::ptr::null_mut(), hp); }
                }
            }
            // tdefl streaming entry points, buffer and callback output
            let tflags = create_comp_flags_from_zip_params(level, if i % 2 == 0 { 15 } else { -15 }, 0);
            tdefl_stream(tr, &data, tflags, false, r);
            tdefl_stream(tr, &data, tflags, true, r);
            // tdefl one-shot helpers (raw and zlib flags), exact-capacity destination
            let flags = create_comp_flags_from_zip_params(level, if i % 2 == 0 { 15 } else { -15 }, 0) as c_int;
            let mut hl_: usize = 0;
            let hp = tdefl_compress_mem_to_heap(gin.ptr as *const c_void, size, &mut hl_, flags);
            let hv = if hp.is_null() { Vec::new() } else { std::slice::from_raw_parts(hp as *const u8, hl_).to_vec() };
            if !hp.is_null() { miniz_def_free_func(std::ptr::null_mut(), hp); }
            tr.ev(json!({"ev": "stream", "zlib": i % 2 == 0, "mode": "verify", "z": bytes(&hv), "plen": size}));
            tr.ev(json!({"ev": "c_compressed_valid"}));
            for cap in [hv.len(), hv.len().saturating_sub(1)] {
                let gd = Guarded::new(cap, true);
                let k = tdefl_compress_mem_to_mem(gd.ptr as *mut c_void, cap, gin.ptr as *const c_void, size, flags);
                tr.ev(json!({"ev": "c_mem_to_mem", "dir": "deflate", "cap": cap, "need": hv.len(), "ret": k as i64,
                             "data": bytes(&gd.slice()[..k.min(cap)]), "want": bytes(&hv)}));
            }
        }
    }
}

pub fn scn_capi(o: &Opts, tr: &mut Tr, prop: &str) {
    let mut r = gen::rng(o.seed, 1717);
    misuse(tr, prop, &mut r);
    let kinds = ["text", "rand", "zeros", "mixed", "runs"];
    let n = if o.thorough { 400 } else { 120 };
    for i in 0..n {
        let kind = kinds[i % kinds.len()];
        let size = match i % 6 { 0 => 0, 1 => r.gen_range(1..20), 2 => r.gen_range(20..600), 3 => r.gen_range(600..5000), 4 => r.gen_range(0..100), _ => r.gen_range(5000..40000) };
        let data = gen::data(kind, size, &mut r);
        let level = [-1i32, 0, 1, 2, 6, 9, 10, 11][r.gen_range(0..8)];
        let wbits = if r.gen_range(0..3) == 0 { -15 } else { 15 };
        let strat = r.gen_range(0..5);
        if i % 2 == 0 {
            stream_case(tr, &format!("c-def-{}-{}-{}", i, kind, size), prop, true, &data, level, wbits, strat, &mut r);
        } else {
            // inflate: feed a stream produced by the Rust compressor (sometimes corrupted / truncated)
            let flags = create_comp_flags_from_zip_params(level, wbits, strat);
            let mut c = CompressorOxide::new(flags);
            let mut z = vec![0u8; size * 2 + 1000];
            let res = deflate(&mut c, &data, &mut z, MZFlush::Finish);
            z.truncate(res.bytes_written);
            let mut known = true;
            match i % 8 {
                3 => { let k = r.gen_range(0..z.len().max(1)); z.truncate(k); known = false; }
                5 => { if !z.is_empty() { let k = r.gen_range(0..z.len()); z[k] ^= 0x10; } known = false; }
                7 => { z.extend_from_slice(&[1, 2, 3]); }
                1 => { let t: Vec<u8> = (0..r.gen_range(1..40)).map(|_| r.gen()).collect(); z.extend_from_slice(&t); }
                _ => {}
            }
            stream_case_p(tr, &format!("c-inf-{}-{}-{}", i, kind, size), prop, false, &z, 0, wbits, 0,
                          if known && size <= 20000 { Some(&data[..]) } else { None }, &mut r);
        }
    }
    oneshots(o, tr, prop, &mut r);
}

/// C15: the advertised bound really bounds one-shot zlib output.
/// one (data, level, strategy): the bound functions, one finishing call into a destination of
/// exactly the bound (guard-paged), and the size of an unconstrained compression
fn bound_case(tr: &mut Tr, prop: &str, kind: &str, data: &[u8], level: i32, strat: i32, rep: usize) {
    let n = data.len();
                tr.case(&format!("bd-{}-{}-l{}-s{}-{}", kind, n, level, strat, rep), prop, json!({"n": n}));
    let data = &data[..];
    unsafe {
                    let bound = mz_compressBound(n as _) as usize;
                    let dbound = mz_deflateBound(std::ptr::null_mut(), n as _) as usize;
                    let mut sbound = dbound;
                    let gin = Guarded::from(&data, true);
                    let gout = Guarded::new(bound, true);
                    let (rc, outn) = if strat == 0 {
                        let mut dl = bound as u64;
                        let rc = mz_compress2(gout.ptr, &mut dl as *mut u64 as *mut _, gin.ptr, n as _, level);
                        (rc, if rc == 0 { dl as usize } else { 0 })
                    } else {
                        let mut s = mz_stream::default();
                        let rc0 = mz_deflateInit2(&mut s, level, 8, 15, 9, strat);
                        if rc0 != 0 { (rc0, 0) } else {
                            // the bound taken from the initialised stream is the one a caller sizes its buffer with
                            let sb = mz_deflateBound(&mut s, n as _) as usize;
                            sbound = sb;
                            let cap = sb.min(bound);
                            s.next_in = gin.ptr; s.avail_in = n as u32; s.next_out = gout.ptr; s.avail_out = cap as u32;
                            let rc = mz_deflate(&mut s, 4);
                            let w = s.total_out as usize;
                            mz_deflateEnd(&mut s);
                            (if rc == 1 { 0 } else if rc == 0 { -5 } else { rc }, w)
                        }
                    };
                    // size of an unconstrained compression, from the Rust API
                    let flags = deflate_flags::TDEFL_COMPUTE_ADLER32 | create_comp_flags_from_zip_params(level, 15, strat);
                    let mut c = CompressorOxide::new(flags);
                    let mut big = vec![0u8; n + n / 2 + 1000];
                    let res = deflate(&mut c, &data, &mut big, MZFlush::Finish);
                    tr.ev(json!({"ev": "c_bound", "n": n, "level": level, "strategy": strat, "bound": bound, "dbound": dbound, "sbound": sbound,
                        "ret": rc, "out_len": outn, "free_len": res.bytes_written, "free_status": code(res.status)}));
                    if n <= 20000 && rc == 0 {
                        tr.ev(json!({"ev": "input", "p": bytes(&data)}));
                        tr.ev(json!({"ev": "stream", "zlib": true, "mode": "verify", "z": bytes(&gout.slice()[..outn.min(bound)]), "plen": n}));
                        tr.ev(json!({"ev": "c_compressed_valid"}));
                    }
                }
}

pub fn scn_bound(o: &Opts, tr: &mut Tr, prop: &str) {
    let mut r = gen::rng(o.seed, 1515);
    let mut sizes: Vec<usize> = (0..=300).collect();
    for t in [31743usize, 31744, 31745, 32767, 32768, 32769, 63488, 65535, 65536, 65537, 85196, 100_000] {
        sizes.push(t);
    }
    if o.thorough {
        for t in [131072usize, 200_000, 317_440, 1_000_000, 3_000_000] {
            sizes.push(t);
        }
    }
    for t in [1000usize, 5000, 5200, 6000, 12000, 20000, 40000, 58000, 59000, 63490, 95235, 126980] {
        sizes.push(t);
    }
    let kinds = ["rand", "sparse3", "hibytes", "alpha2", "hibytes", "rand"];
    for (si, &n) in sizes.iter().enumerate() {
        let reps = if n <= 300 { 1 } else { 3 };
        for rep in 0..reps {
            let kind = if n <= 300 { ["rand", "hibytes"][si % 2] } else { kinds[(si + rep) % kinds.len()] };
            let data = gen::data(kind, n, &mut r);
            let levels: Vec<i32> = if n <= 300 { vec![[-1, 0, 1, 2, 6, 9, 10][(si + rep) % 7], 6] } else if n > 200_000 { vec![0, 1] } else { vec![0, 1, 6] };
            for level in levels {
              let strats: Vec<i32> = if n <= 300 { vec![(si % 5) as i32] } else if n <= 200_000 { vec![0, 4, [1, 2, 3][(si + rep) % 3]] } else { vec![0] };
              for strat in strats {
                bound_case(tr, prop, kind, &data, level, strat, rep);
            }
              }
        }
    }
    // a megabyte of 9-bit literals on the fast route with static blocks forced (every 31 KiB block must
    // still fall back to a stored block), also in the quick tier
    {
        let data = gen::data("hibytes", 1_000_000, &mut r);
        for level in [1i32, 2] {
            bound_case(tr, prop, "hibytes", &data, level, 4, 9);
        }
    }
    // statistics that shift completely in the middle of a long input (every block's code must be
    // built from that block's own symbol counts): bytes >= 32 first, then random bytes < 32
    for (n, levels) in if o.thorough { vec![(5_000_000usize, vec![1i32, 2, 6]), (8_000_000, vec![1])] } else { vec![(5_000_000usize, vec![1i32])] } {
        let mut data: Vec<u8> = Vec::with_capacity(n);
        for _ in 0..(n * 2 / 5) { data.push(r.gen_range(32..=255)); }
        while data.len() < n { data.push(r.gen_range(0..32)); }
        for level in levels {
            bound_case(tr, prop, "shiftstat", &data, level, 0, 0);
        }
    }
    // data sitting just on either side of the block-cut heuristic ("fat": LZ codes * 115/128 >= bytes):
    // incompressible 9-bit literals with a maximal match every `run` bytes, so that blocks are not cut
    // early and grow past the window, where the stored-block fallback no longer applies
    let totals: Vec<usize> = if o.thorough { vec![70_000, 107_000, 300_000, 600_000] } else { vec![70_000, 107_000, 250_000] };
    for (ti, &total) in totals.iter().enumerate() {
        for (ri, run) in [8000usize, 12_000, 15_000, 18_000, 22_000, 26_000].iter().enumerate() {
            if !o.thorough && (ti + ri + o.seed as usize) % 2 == 1 { continue; }
            let data = gen::data(&format!("nearfat{}", run), total, &mut r);
            for level in [1i32, 2, 6, 9] {
                if !o.thorough && level == 9 && total > 150_000 { continue; }
                for strat in [4i32, 0] {
                    bound_case(tr, prop, &format!("nearfat{}", run), &data, level, strat, 0);
                }
            }
        }
    }
}
