//! C16: checksum functions, Rust and C entry points, every split.
use crate::gen;
use crate::tr::{bytes, Tr};
use crate::Opts;
use rand::Rng;
use serde_json::json;

fn hl(v: u32) -> serde_json::Value {
    json!([v >> 16, v & 0xffff])
}

fn adler_rust(start: u32, d: &[u8]) -> u32 {
    miniz_oxide::mz_adler32_oxide(start, d)
}
fn crc_rust(start: u32, d: &[u8]) -> u32 {
    miniz_oxide_c_api::mz_crc32_oxide(start, d)
}
fn adler_c(start: u64, d: &[u8]) -> u64 {
    unsafe { miniz_oxide_c_api::mz_adler32(start as _, d.as_ptr(), d.len()) as u64 }
}
fn crc_c(start: u64, d: &[u8]) -> u64 {
    unsafe { miniz_oxide_c_api::mz_crc32(start as _, d.as_ptr(), d.len()) as u64 }
}

fn ev(tr: &mut Tr, f: &str, via: &str, start: u32, d: &[u8], res: u64, isnull: bool) {
    tr.ev(json!({"ev": "cksum", "fn": f, "via": via, "start": hl(start), "data": bytes(d), "isnull": isnull,
                 "result": hl(res as u32), "wide": res > 0xffff_ffff}));
}

pub fn scn_checksums(o: &Opts, tr: &mut Tr, prop: &str) {
    let mut r = gen::rng(o.seed, 1616);
    let lens: Vec<usize> = vec![0, 1, 2, 15, 16, 17, 31, 32, 33, 63, 64, 65, 127, 128, 129, 255, 256, 257, 1000, 5551, 5552, 5553, 5554,
                                11104, 11105, 65537, if o.thorough { 200_000 } else { 70_000 }];
    for (li, &n) in lens.iter().enumerate() {
        for kind in ["rand", "ff", "zeros", "text"] {
            if n > 6000 && kind == "text" { continue; }
            let d = gen::data(kind, n, &mut r);
            tr.case(&format!("ck-{}-{}", kind, n), prop, json!({"n": n}));
            // one pass from the initial values
            ev(tr, "adler", "rust", 1, &d, adler_rust(1, &d) as u64, false);
            ev(tr, "crc", "rust", 0, &d, crc_rust(0, &d) as u64, false);
            ev(tr, "adler", "c", 1, &d, adler_c(1, &d), false);
            ev(tr, "crc", "c", 0, &d, crc_c(0, &d), false);
            // splits: every split point for short buffers, random splits otherwise
            let splits: Vec<usize> = if n <= 70 { (0..=n).collect() } else { (0..6).map(|_| r.gen_range(0..=n)).chain([1, n - 1, 5552.min(n), 16.min(n)]).collect() };
            for &s in &splits {
                let a1 = adler_rust(1, &d[..s]);
                ev(tr, "adler", "rust", 1, &d[..s], a1 as u64, false);
                ev(tr, "adler", if (li + s) % 2 == 0 { "rust" } else { "c" }, a1, &d[s..],
                   if (li + s) % 2 == 0 { adler_rust(a1, &d[s..]) as u64 } else { adler_c(a1 as u64, &d[s..]) }, false);
                let c1 = crc_rust(0, &d[..s]);
                ev(tr, "crc", "rust", 0, &d[..s], c1 as u64, false);
                ev(tr, "crc", if (li + s) % 2 == 1 { "rust" } else { "c" }, c1, &d[s..],
                   if (li + s) % 2 == 1 { crc_rust(c1, &d[s..]) as u64 } else { crc_c(c1 as u64, &d[s..]) }, false);
            }
            // multi-way split
            let mut a = 1u32;
            let mut c = 0u32;
            let mut pos = 0;
            for ch in gen::chunks("rand", n, &mut r) {
                let na = adler_rust(a, &d[pos..pos + ch]);
                ev(tr, "adler", "rust", a, &d[pos..pos + ch], na as u64, false);
                let nc = crc_rust(c, &d[pos..pos + ch]);
                ev(tr, "crc", "rust", c, &d[pos..pos + ch], nc as u64, false);
                a = na;
                c = nc;
                pos += ch;
            }
        }
    }
    // modular edges of Adler-32: running sums that land exactly on, just below and just above the modulus
    // 65521 within one short chunk (and within one long chunk), from start values next to the modulus
    tr.case("ck-adler-modulus-edges", prop, json!({}));
    for s1 in [65520u32, 65519, 65506, 65505, 65280, 61441, 1, 0] {
        for s2 in [65520u32, 0, 12345, 65519] {
            for m in [1usize, 2, 7, 15, 16, 17, 31, 300] {
                for delta in [-1i64, 0, 1] {
                    let target = 65521i64 - s1 as i64 + delta;
                    if target < 0 || target > 255 * m as i64 { continue; }
                    let mut d = vec![0u8; m];
                    let mut left = target as usize;
                    for (i, b) in d.iter_mut().enumerate() {
                        let share = (left / (m - i)).min(255);
                        let v = if i == m - 1 { left.min(255) } else { share };
                        *b = v as u8;
                        left -= v;
                    }
                    let start = (s2 << 16) | s1;
                    ev(tr, "adler", "rust", start, &d, adler_rust(start, &d) as u64, false);
                    ev(tr, "adler", "c", start, &d, adler_c(start as u64, &d), false);
                }
            }
        }
    }
    // C entry points: null pointer, start value wider than 32 bits (only the low 32 bits count)
    tr.case("ck-c-misc", prop, json!({}));
    let d = gen::data("rand", 300, &mut r);
    unsafe {
        let ra = miniz_oxide_c_api::mz_adler32(12345, std::ptr::null(), 10) as u64;
        tr.ev(json!({"ev": "cksum", "fn": "adler", "via": "c", "start": hl(12345), "data": [], "isnull": true, "result": hl(ra as u32), "wide": ra > 0xffff_ffff}));
        let rc = miniz_oxide_c_api::mz_crc32(12345, std::ptr::null(), 10) as u64;
        tr.ev(json!({"ev": "cksum", "fn": "crc", "via": "c", "start": hl(12345), "data": [], "isnull": true, "result": hl(rc as u32), "wide": rc > 0xffff_ffff}));
    }
    let a1 = adler_rust(1, &d[..100]);
    let wide = (0xABCD_0000_0000u64) | a1 as u64;
    ev(tr, "adler", "c", a1, &d[100..], adler_c(wide, &d[100..]), false);
    let c1 = crc_rust(0, &d[..100]);
    let widec = (0x1234_0000_0000u64) | c1 as u64;
    ev(tr, "crc", "c", c1, &d[100..], crc_c(widec, &d[100..]), false);
}
