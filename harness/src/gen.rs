//! Seeded data generators.
use rand::rngs::StdRng;
use rand::{Rng, SeedableRng};

pub fn rng(seed: u64, salt: u64) -> StdRng {
    StdRng::seed_from_u64(seed.wrapping_mul(0x9E37_79B9_7F4A_7C15).wrapping_add(salt))
}

const WORDS: &[&str] = &[
    "the", "quick", "brown", "fox", "jumps", "over", "lazy", "dog", "deflate", "stream", "window",
    "huffman", "literal", "distance", "length", "block", "zlib", "adler", "checksum", "buffer", "\n",
    ", ", ". ", "compress", "ion", "ing", "ed", "0123456789",
];

pub fn data(kind: &str, n: usize, r: &mut StdRng) -> Vec<u8> {
    let mut v = Vec::with_capacity(n);
    if kind == "zeros" {
        v.resize(n, 0);
    } else if kind == "ff" {
        v.resize(n, 0xff);
    } else if kind == "rand" {
        for _ in 0..n {
            v.push(r.gen());
        }
    } else if kind == "hibytes" {
        // incompressible bytes that all take 9 bits in the fixed Huffman code
        for _ in 0..n {
            v.push(r.gen_range(144..=255));
        }
    } else if kind == "text" {
        while v.len() < n {
            let w = WORDS[r.gen_range(0..WORDS.len())];
            v.extend_from_slice(w.as_bytes());
            v.push(b' ');
        }
        v.truncate(n);
    } else if kind == "alpha4" {
        for _ in 0..n {
            v.push(b"abcd"[r.gen_range(0..4)]);
        }
    } else if kind == "alpha2" {
        for _ in 0..n {
            v.push(b"xy"[r.gen_range(0..2)]);
        }
    } else if let Some(k) = kind.strip_prefix("period") {
        let k: usize = k.parse().unwrap_or(7).max(1);
        let pat: Vec<u8> = (0..k).map(|_| r.gen()).collect();
        for i in 0..n {
            v.push(pat[i % k]);
        }
    } else if let Some(d) = kind.strip_prefix("planted") {
        // random bytes; every so often a copy of a run from exactly `d` bytes back
        let d: usize = d.parse().unwrap_or(1000).max(1);
        while v.len() < n {
            if v.len() >= d && r.gen_range(0..4) == 0 {
                let len = r.gen_range(3..40).min(n - v.len());
                for _ in 0..len {
                    let b = v[v.len() - d];
                    v.push(b);
                }
            } else {
                let len = r.gen_range(1..200).min(n - v.len());
                for _ in 0..len {
                    v.push(r.gen());
                }
            }
        }
    } else if kind == "xx" {
        let h = n / 2;
        for _ in 0..h {
            v.push(r.gen());
        }
        for i in 0..(n - h) {
            let b = if h == 0 { r.gen() } else { v[i % h] };
            v.push(b);
        }
    } else if kind == "wrapruns" {
        // runs and repeats whose boundaries fall on or next to multiples of 32768 (dictionary wrap)
        let mut next_mark = 32768usize;
        while v.len() < n {
            let to_mark = next_mark.saturating_sub(v.len());
            if to_mark <= 2 + (n % 3) {
                // finish the filler with a byte different from the run byte, then a run across / at the mark
                let delta = [0usize, 1, 2][r.gen_range(0..3)];
                while v.len() + delta < next_mark && v.len() < n {
                    v.push(r.gen_range(0..200));
                }
                let c: u8 = r.gen_range(200..=255);
                let len = r.gen_range(3..40);
                for _ in 0..len {
                    if v.len() < n { v.push(c); }
                }
                next_mark += 32768;
            } else {
                let len = r.gen_range(1..400).min(to_mark.saturating_sub(2).max(1)).min(n - v.len());
                if r.gen_range(0..3) == 0 {
                    let b: u8 = r.gen_range(0..200);
                    for _ in 0..len { v.push(b); }
                } else {
                    for _ in 0..len { v.push(r.gen_range(0..200)); }
                }
            }
        }
    } else if kind == "runs259" {
        // runs of exactly 259 equal bytes: a literal followed by a maximal (258) match, over and over
        let mut b: u8 = r.gen();
        while v.len() < n {
            b = b.wrapping_add(1 + r.gen_range(0..200));
            let len = if r.gen_range(0..8) == 0 { r.gen_range(1..300) } else { 259 };
            for _ in 0..len.min(n - v.len()) {
                v.push(b);
            }
        }
    } else if kind == "runs" {
        while v.len() < n {
            let b: u8 = r.gen();
            let len = r.gen_range(1..300).min(n - v.len());
            for _ in 0..len {
                v.push(b);
            }
        }
    } else if kind == "lazycut" {
        // incompressible data ("fat" blocks are cut every 31 KiB) with a staircase of ever longer
        // matches laid over every cut position: position j of the staircase matches an earlier
        // entry over j + 3 bytes, so a lazy parser re-defers its match at every step there
        for _ in 0..n {
            v.push(r.gen());
        }
        let k = 16usize;
        let mut m = 31744usize;
        while m + 64 < n && m > 4200 {
            let b: Vec<u8> = (0..(2 * k + 4)).map(|_| r.gen()).collect();
            let base = m - 4000;
            for j in 0..k {
                let e = &b[j..=(2 * j + 2)];
                let at = base + j * 40;
                v[at..at + e.len()].copy_from_slice(e);
            }
            let at = m - 8;
            v[at..at + b.len()].copy_from_slice(&b);
            m += 31745;
        }
    } else if kind == "fibo" {
        // symbol frequencies following the Fibonacci sequence: an unrestricted Huffman code would be
        // deeper than 15 bits, so the encoder has to length-limit it
        let mut pool: Vec<u8> = Vec::new();
        let (mut a, mut b) = (1usize, 1usize);
        let mut sym = 0u8;
        while pool.len() < n && sym < 40 {
            for _ in 0..a.min(n - pool.len()) {
                pool.push(sym.wrapping_mul(7).wrapping_add(3));
            }
            let c = a + b;
            a = b;
            b = c;
            sym += 1;
        }
        while pool.len() < n {
            pool.push(sym.wrapping_mul(7).wrapping_add(3));
        }
        // shuffle so that matches stay rare
        for i in (1..pool.len()).rev() {
            let j = r.gen_range(0..=i);
            pool.swap(i, j);
        }
        v = pool;
    } else if let Some(run) = kind.strip_prefix("nearfat") {
        // `run` random bytes in 144..=255 (9 bits each in the fixed code), then a copy of the last
        // 258 bytes, over and over: about 258 / (run + 258) of the input is matched
        let run: usize = run.parse().unwrap_or(22_000).max(300);
        while v.len() < n {
            let jitter = r.gen_range(0..run / 20 + 1);
            for _ in 0..(run + jitter) {
                v.push(r.gen_range(144..=255));
            }
            let l = v.len();
            for i in 0..258 {
                let b = v[l - 258 + i];
                v.push(b);
            }
        }
    } else if let Some(d) = kind.strip_prefix("unitmatch") {
        // `d` noise bytes, then groups of 8 bytes: 7 equal to the bytes `d` positions back and one that
        // differs - one 7-byte match at distance `d` per group, so the number of matches on one distance
        // symbol in a stream is (n - d) / 8 exactly (16-bit symbol counters: 65535 / 65536 / 65537)
        let d: usize = (d.parse().unwrap_or(1000).max(16) / 8) * 8;
        let base: Vec<u8> = (0..d).map(|_| r.gen()).collect();
        v.extend_from_slice(&base[..d.min(n)]);
        let per = d / 8;
        let mut unit = 0usize;
        while v.len() + 8 <= n {
            let copy = unit / per + 1;
            let i = unit % per;
            v.extend_from_slice(&base[i * 8..i * 8 + 7]);
            v.push(base[i * 8 + 7] ^ ((copy % 255) as u8 + 1));
            unit += 1;
        }
        while v.len() < n { v.push(r.gen()); }
    } else if kind == "deep15" {
        // Per segment of 24..31 K: ~160 common byte values, a Fibonacci ladder of seven rarer
        // values and 8..24 values that occur once.  An unrestricted Huffman code would give the
        // once-only values 16-17 bits, so the length limiter puts them at the maximum of 15;
        // they are laid next to each other in clusters so that runs of maximum-length literal
        // codes go through the bit accumulator of the block writer back to back.
        while v.len() < n {
            let seg = r.gen_range(24_000..31_000usize).min(n - v.len());
            let base: u8 = r.gen();
            let start = v.len();
            for _ in 0..seg {
                v.push(base.wrapping_add(r.gen_range(0..160)));
            }
            if seg < 4000 { continue; }
            let mut cnt = [8usize, 13, 21, 34, 55, 89, 144];
            if r.gen_range(0..2) == 0 { cnt = [5, 8, 13, 21, 34, 55, 89]; }
            for (k, c) in cnt.iter().enumerate() {
                let val = base.wrapping_add(160 + k as u8);
                for _ in 0..*c {
                    let at = start + r.gen_range(0..seg);
                    v[at] = val;
                }
            }
            let nrare = r.gen_range(8..=24usize);
            let mut k = 0usize;
            while k < nrare {
                let cl = r.gen_range(4..=8usize).min(nrare - k).max(1);
                let at = start + r.gen_range(0..seg - 16);
                for j in 0..cl {
                    v[at + j] = base.wrapping_add(170 + (k + j) as u8);
                }
                k += cl;
            }
        }
    } else if kind == "deepdist" {
        // random bytes with planted 4-byte copies whose distance symbols follow the Fibonacci
        // sequence (16..24 distinct distance symbols): the distance code has to be length-limited
        // too, so matches made of maximum-length code words reach the block writer
        let head = 33_000usize.min(n);
        for _ in 0..head {
            v.push(r.gen());
        }
        const DBASE: [usize; 30] = [1, 2, 3, 4, 5, 7, 9, 13, 17, 25, 33, 49, 65, 97, 129, 193, 257, 385, 513, 769,
                                    1025, 1537, 2049, 3073, 4097, 6145, 8193, 12289, 16385, 24577];
        let nsym = r.gen_range(16..=24usize);
        let first = r.gen_range(4..=(30 - nsym));
        let mut plan: Vec<usize> = Vec::new();
        let (mut a, mut b) = (1usize, 1usize);
        for k in 0..nsym {
            for _ in 0..a { plan.push(first + k); }
            let c = a + b; a = b; b = c;
            if plan.len() > 6000 { break; }
        }
        for i in (1..plan.len()).rev() {
            let j = r.gen_range(0..=i);
            plan.swap(i, j);
        }
        for sym in plan {
            if v.len() + 12 > n { break; }
            for _ in 0..r.gen_range(3..7) {
                v.push(r.gen());
            }
            let lo = DBASE[sym];
            let hi = if sym == 29 { 32768 } else { DBASE[sym + 1] - 1 };
            let d = r.gen_range(lo..=hi).min(v.len());
            let len = r.gen_range(4..=5);
            for _ in 0..len {
                let x = v[v.len() - d];
                v.push(x);
            }
        }
        while v.len() < n {
            v.push(r.gen());
        }
    } else if kind == "litmatch" {
        // mostly literals with plenty of short, overlapping repeats at varying distances: the lazy
        // matcher frequently has a deferred match pending, and the LZ code buffer fills up
        while v.len() < n {
            if v.len() > 64 && r.gen_range(0..4) == 0 {
                let dist = 1 + r.gen_range(0..(v.len() - 1).min(3000));
                let len = 3 + r.gen_range(0..7);
                for _ in 0..len {
                    let b = v[v.len() - dist];
                    v.push(b);
                }
            } else {
                v.push(r.gen());
            }
        }
    } else if kind == "sparse3" {
        // near-incompressible: random bytes with sparse 3-byte repeats
        while v.len() < n {
            if v.len() > 10 && r.gen_range(0..6) == 0 {
                let back = r.gen_range(3..v.len().min(30000));
                for _ in 0..3.min(n - v.len()) {
                    let b = v[v.len() - back];
                    v.push(b);
                }
            } else {
                v.push(r.gen());
            }
        }
    } else {
        // mixed
        let kinds = ["zeros", "rand", "text", "alpha4", "period5", "runs", "planted300"];
        while v.len() < n {
            let k = kinds[r.gen_range(0..kinds.len())];
            let len = r.gen_range(1..2000).min(n - v.len());
            let part = data(k, len, r);
            v.extend_from_slice(&part);
        }
    }
    v.truncate(n);
    v
}

/// Split `n` into chunk sizes according to a named pattern.
pub fn chunks(pat: &str, n: usize, r: &mut StdRng) -> Vec<usize> {
    let mut v = Vec::new();
    let mut left = n;
    if pat == "all" {
        v.push(n);
        return v;
    }
    if let Some(k) = pat.strip_prefix("fixed") {
        let k: usize = k.parse().unwrap_or(1).max(1);
        while left > 0 {
            let c = k.min(left);
            v.push(c);
            left -= c;
        }
        if v.is_empty() {
            v.push(0);
        }
        return v;
    }
    if let Some(k) = pat.strip_prefix("first") {
        // one chunk of exactly k bytes, then the rest
        let k: usize = k.parse().unwrap_or(1).min(n);
        v.push(k);
        if n > k {
            v.push(n - k);
        }
        return v;
    }
    if let Some(k) = pat.strip_prefix("split") {
        let k: usize = k.parse().unwrap_or(1).min(n);
        v.push(k);
        v.push(n - k);
        return v;
    }
    // random, including empty chunks
    while left > 0 {
        let c = match r.gen_range(0..10) {
            0 => 0,
            1 | 2 => 1,
            3 => 2,
            4 | 5 => r.gen_range(1..20),
            6 | 7 => r.gen_range(1..300),
            8 => r.gen_range(1..5000),
            _ => left,
        }
        .min(left);
        v.push(c);
        left -= c;
    }
    if v.is_empty() {
        v.push(0);
    }
    v
}

/// A minimal encoder of the format (stored blocks and fixed-Huffman blocks only), used to build
/// streams with matches at chosen (length, distance, position) - inputs for the decoder; what the
/// streams mean is decided by the acceptor specification, never by this code.
pub struct Enc {
    pub z: Vec<u8>,
    pub p: Vec<u8>,
    acc: u64,
    nbits: u32,
}

const LEN_BASE: [usize; 29] = [3, 4, 5, 6, 7, 8, 9, 10, 11, 13, 15, 17, 19, 23, 27, 31, 35, 43, 51, 59, 67, 83, 99, 115, 131, 163, 195, 227, 258];
const LEN_EXTRA: [u32; 29] = [0, 0, 0, 0, 0, 0, 0, 0, 1, 1, 1, 1, 2, 2, 2, 2, 3, 3, 3, 3, 4, 4, 4, 4, 5, 5, 5, 5, 0];
const DIST_BASE: [usize; 30] = [1, 2, 3, 4, 5, 7, 9, 13, 17, 25, 33, 49, 65, 97, 129, 193, 257, 385, 513, 769, 1025, 1537, 2049, 3073, 4097, 6145, 8193, 12289, 16385, 24577];
const DIST_EXTRA: [u32; 30] = [0, 0, 0, 0, 1, 1, 2, 2, 3, 3, 4, 4, 5, 5, 6, 6, 7, 7, 8, 8, 9, 9, 10, 10, 11, 11, 12, 12, 13, 13];

impl Enc {
    pub fn new() -> Enc {
        Enc { z: Vec::new(), p: Vec::new(), acc: 0, nbits: 0 }
    }
    fn bits(&mut self, v: u32, n: u32) {
        self.acc |= (v as u64) << self.nbits;
        self.nbits += n;
        while self.nbits >= 8 {
            self.z.push(self.acc as u8);
            self.acc >>= 8;
            self.nbits -= 8;
        }
    }
    /// Huffman code words are packed most significant bit first
    fn code(&mut self, code: u32, n: u32) {
        let mut rev = 0u32;
        for i in 0..n {
            rev |= ((code >> i) & 1) << (n - 1 - i);
        }
        self.bits(rev, n);
    }
    fn align(&mut self) {
        if self.nbits > 0 {
            let pad = 8 - self.nbits;
            self.bits(0, pad);
        }
    }
    pub fn stored(&mut self, data: &[u8], last: bool) {
        self.bits(last as u32, 1);
        self.bits(0, 2);
        self.align();
        let n = data.len() as u32;
        self.bits(n & 0xffff, 16);
        self.bits(!n & 0xffff, 16);
        self.z.extend_from_slice(data);
        self.p.extend_from_slice(data);
    }
    pub fn begin_fixed(&mut self, last: bool) {
        self.bits(last as u32, 1);
        self.bits(1, 2);
    }
    fn litlen_sym(&mut self, s: u32) {
        match s {
            0..=143 => self.code(0x30 + s, 8),
            144..=255 => self.code(0x190 + (s - 144), 9),
            256..=279 => self.code(s - 256, 7),
            _ => self.code(0xC0 + (s - 280), 8),
        }
    }
    pub fn lit(&mut self, b: u8) {
        self.litlen_sym(b as u32);
        self.p.push(b);
    }
    /// a match; `dist` must not exceed the output so far
    pub fn mat(&mut self, len: usize, dist: usize) {
        let li = (0..29).rev().find(|&i| LEN_BASE[i] <= len).unwrap();
        // 258 has its own symbol; 227..257 use symbol 284
        let li = if len == 258 { 28 } else if li == 28 { 27 } else { li };
        self.litlen_sym(257 + li as u32);
        self.bits((len - LEN_BASE[li]) as u32, LEN_EXTRA[li]);
        let di = (0..30).rev().find(|&i| DIST_BASE[i] <= dist).unwrap();
        self.code(di as u32, 5);
        self.bits((dist - DIST_BASE[di]) as u32, DIST_EXTRA[di]);
        for _ in 0..len {
            let b = self.p[self.p.len() - dist];
            self.p.push(b);
        }
    }
    pub fn end_block(&mut self) {
        self.litlen_sym(256);
    }
    pub fn finish(mut self) -> (Vec<u8>, Vec<u8>) {
        self.align();
        (self.z, self.p)
    }
}

/// More than one 32 KiB window of random bytes (stored blocks), then short and long matches whose
/// source or destination straddles a multiple of 32768 in the output (ring index 32764..32767 / 0..3).
pub fn wrap_match_stream(r: &mut StdRng) -> (Vec<u8>, Vec<u8>) {
    let mut e = Enc::new();
    let laps = 1 + r.gen_range(0..2usize);
    for lap in 1..=laps {
        // random data up to just before / just after the lap boundary
        let target = lap * 32768 + [0usize, 1, 2, 5, 40, 300][r.gen_range(0..6)] - if r.gen_range(0..3) == 0 { r.gen_range(0..12) } else { 0 };
        while e.p.len() < target {
            let n = (target - e.p.len()).min(r.gen_range(1..=20000));
            let d: Vec<u8> = (0..n).map(|_| r.gen()).collect();
            e.stored(&d, false);
        }
        e.begin_fixed(false);
        for _ in 0..r.gen_range(20..60) {
            let cur = e.p.len();
            if r.gen_range(0..4) == 0 {
                e.lit(r.gen());
                continue;
            }
            let len = [3usize, 3, 3, 4, 5, 6, 8, 9, 17, 258][r.gen_range(0..10)];
            // source ring index next to the wrap, or destination next to the wrap, or anything
            let want_src = match r.gen_range(0..3) {
                0 => (32768 + [32764usize, 32765, 32766, 32767, 0, 1, 2][r.gen_range(0..7)]) % 32768,
                1 => r.gen_range(0..32768),
                _ => (cur + 32768 - [1usize, 2, 3, 4, 258, 259, 32768][r.gen_range(0..7)]) % 32768,
            };
            let mut dist = (cur + 32768 * 4 - want_src) % 32768;
            if dist == 0 { dist = 32768; }
            if r.gen_range(0..4) == 0 {
                // distances next to the ring size itself: the source sits just ahead of the destination
                dist = [32767usize, 32766, 32765, 32768, 32764, 16384, 32760][r.gen_range(0..7)];
            }
            if dist > cur { dist = 1 + r.gen_range(0..cur.min(32768)); }
            e.mat(len, dist);
        }
        e.end_block();
    }
    e.begin_fixed(true);
    e.lit(b'.');
    e.end_block();
    e.finish()
}
