//! C18 (reset / determinism) and C19 (snapshots): pairs of objects that must behave identically.
use crate::comp::{tdefl_status, Cfg, FLUSHES, STRATS};
use crate::gen;
use crate::infl::{st_name, stream_event};
use crate::scn_dec::{make_stream, mutate, sources};
use crate::tr::{bytes, Tr};
use crate::Opts;
use miniz_oxide::deflate::core::{compress, CompressorOxide, TDEFLStatus};
use miniz_oxide::inflate::core::inflate_flags::*;
use miniz_oxide::inflate::core::{decompress, BlockBoundaryState, DecompressorOxide};
use miniz_oxide::inflate::stream::{inflate, FullReset, InflateState, MinReset, ZeroReset};
use miniz_oxide::inflate::TINFLStatus;
use miniz_oxide::{DataFormat, MZFlush};
use rand::rngs::StdRng;
use rand::{Rng, SeedableRng};
use serde_json::{json, Value};

/// A reproducible compress schedule over `data`; returns per-call results.
fn run_comp(c: &mut CompressorOxide, data: &[u8], seed: u64, max_calls: usize, finish: bool) -> Vec<Value> {
    let mut r = StdRng::seed_from_u64(seed);
    let mut res = Vec::new();
    let mut pos = 0;
    for _ in 0..max_calls {
        let rem = data.len() - pos;
        let ch = match r.gen_range(0..5) { 0 => 0, 1 => 1, 2 => r.gen_range(0..100), _ => rem }.min(rem);
        let ol = match r.gen_range(0..5) { 0 => 1, 1 => 7, 2 => r.gen_range(1..500), _ => 200_000 };
        let fi = if finish && ch == rem { 4 } else { [0usize, 0, 0, 2, 3, 1, 7][r.gen_range(0..7)] };
        let mut out = vec![0u8; ol];
        let (st, used, w) = compress(c, &data[pos..pos + ch], &mut out, FLUSHES[fi].1);
        res.push(json!({"status": tdefl_status(st), "consumed": used, "written": w, "flush": FLUSHES[fi].0,
                        "data": bytes(&out[..w.min(ol)]), "adler": c.adler32() as u64 & 0xffff}));
        pos += used.min(ch);
        if st != TDEFLStatus::Okay {
            break;
        }
    }
    res
}

fn pairs(tr: &mut Tr, what: &str, a: &[Value], b: &[Value]) -> bool {
    tr.ev(json!({"ev": "pair", "what": format!("{}_ncalls", what), "a": a.len(), "b": b.len()}));
    let mut mism = a.len() != b.len();
    for (x, y) in a.iter().zip(b.iter()) {
        mism |= x != y;
        tr.ev(json!({"ev": "pair", "what": what, "a": x, "b": y}));
    }
    mism
}

fn emit_pair(tr: &mut Tr, what: &str, a: &Value, b: &Value) -> bool {
    tr.ev(json!({"ev": "pair", "what": what, "a": a, "b": b}));
    a != b
}

/// A reproducible low-level decode schedule; flat buffer.
fn run_dec(d: &mut DecompressorOxide, z: &[u8], zlib: bool, seed: u64, max_calls: usize) -> Vec<Value> {
    let mut r = StdRng::seed_from_u64(seed);
    let mut res = Vec::new();
    let mut out = vec![0u8; 70_000];
    let (mut ip, mut op) = (0usize, 0usize);
    for _ in 0..max_calls {
        let rem = z.len() - ip;
        let ch = match r.gen_range(0..5) { 0 => 0, 1 => 1, 2 => r.gen_range(0..50), _ => rem }.min(rem);
        let more = ip + ch < z.len();
        let flags = (if zlib { TINFL_FLAG_PARSE_ZLIB_HEADER } else { 0 }) | TINFL_FLAG_USING_NON_WRAPPING_OUTPUT_BUF
            | if more { TINFL_FLAG_HAS_MORE_INPUT } else { 0 };
        let (st, used, w) = decompress(d, &z[ip..ip + ch], &mut out, op, flags);
        res.push(json!({"status": st_name(st), "consumed": used, "written": w, "data": bytes(&out[op..(op + w).min(out.len())])}));
        ip += used.min(ch);
        op += w;
        if st != TINFLStatus::NeedsMoreInput && st != TINFLStatus::HasMoreOutput {
            break;
        }
        if op >= out.len() {
            break;
        }
    }
    res
}

fn run_inf(s: &mut InflateState, z: &[u8], seed: u64, max_calls: usize) -> Vec<Value> {
    let mut r = StdRng::seed_from_u64(seed);
    let mut res = Vec::new();
    let mut ip = 0usize;
    for _ in 0..max_calls {
        let rem = z.len() - ip;
        let ch = match r.gen_range(0..5) { 0 => 0, 1 => 1, 2 => r.gen_range(0..50), _ => rem }.min(rem);
        let ol = match r.gen_range(0..5) { 0 => 1, 1 => 3, 2 => r.gen_range(1..400), _ => 70_000 };
        let fl = match r.gen_range(0..10) { 0 => MZFlush::Sync, 1 => MZFlush::Finish, _ => MZFlush::None };
        let mut out = vec![0u8; ol];
        let rr = inflate(s, &z[ip..ip + ch], &mut out, fl);
        res.push(json!({"status": crate::comp::mz_result(&rr.status), "consumed": rr.bytes_consumed, "written": rr.bytes_written,
                        "data": bytes(&out[..rr.bytes_written.min(ol)])}));
        ip += rr.bytes_consumed.min(ch);
        if rr.status.is_err() && rr.status != Err(miniz_oxide::MZError::Buf) {
            break;
        }
        if rr.status == Ok(miniz_oxide::MZStatus::StreamEnd) {
            break;
        }
    }
    res
}

pub fn scn_reset(o: &Opts, tr: &mut Tr, prop: &str) {
    let mut r = gen::rng(o.seed, 1818);
    let kinds = ["text", "rand", "zeros", "mixed", "runs", "alpha4", "xx"];
    let n = if o.thorough { 300 } else { 80 };
    // (iterations beyond the first n are cheap exploration: written out only on a mismatch)
    let nb = if o.thorough { 6000 } else { 1200 };
    // --- compressor reset and determinism
    for i in 0..(n + nb) {
        if i >= n { tr.hold(); }
        let cfg = Cfg { zlib: r.gen(), level: [0u8, 1, 2, 6, 9][r.gen_range(0..5)], strat: r.gen_range(0..5),
                        wbits: [15u8, 15, 12, 9][r.gen_range(0..4)], api: "params" };
        let h = gen::data(kinds[i % kinds.len()], r.gen_range(0..40_000), &mut r);
        let f = if i % 4 == 1 { gen::data("planted5000", r.gen_range(6000..20_000), &mut r) } else { gen::data(kinds[(i + 3) % kinds.len()], r.gen_range(0..6000), &mut r) };
        tr.case(&format!("rs-comp-{}-l{}-{}-w{}", i, cfg.level, STRATS[cfg.strat].0, cfg.wbits), prop, json!({"hist": h.len(), "follow": f.len()}));
        let mut a = cfg.make();
        // history: anything from nothing to a complete stream, possibly ending in an error state
        let hist_calls = r.gen_range(0..12);
        let hs = r.gen();
        let finish_hist = r.gen_range(0..3) == 0;
        let hres = run_comp(&mut a, &h, hs, hist_calls, finish_hist);
        if r.gen_range(0..4) == 0 {
            // provoke the error state: non-Finish after Finish / call after Done
            let mut out = vec![0u8; 100];
            let _ = compress(&mut a, b"x", &mut out, FLUSHES[4].1);
            let _ = compress(&mut a, b"y", &mut out, FLUSHES[0].1);
        }
        a.reset();
        let mut b = cfg.make();
        let mut b2 = cfg.make();
        let fs: u64 = r.gen();
        let ra = run_comp(&mut a, &f, fs, 400, true);
        let rb = run_comp(&mut b, &f, fs, 400, true);
        let rb2 = run_comp(&mut b2, &f, fs, 400, true);
        tr.ev(json!({"ev": "note", "hist_calls": hres.len()}));
        let m1 = pairs(tr, "compress_after_reset_vs_fresh", &ra, &rb);
        let m2 = pairs(tr, "compress_two_fresh_objects", &rb, &rb2);
        if i >= n { tr.release(m1 || m2); }
    }
    // --- low-level decoder init() and InflateState reset policies
    let srcs = sources(o, &mut r, false);
    for i in 0..(n + nb) {
        if i >= n { tr.hold(); }
        let hsrc = &srcs[r.gen_range(0..srcs.len())];
        let fsrc = &srcs[r.gen_range(0..srcs.len())];
        // history stream: valid, cut or corrupted
        let hz = match i % 3 { 0 => hsrc.z.clone(), 1 => { let k = r.gen_range(0..hsrc.z.len().max(1)); hsrc.z[..k.min(hsrc.z.len())].to_vec() } _ => mutate(&hsrc.z, &mut r).0 };
        // follow-up stream: valid or corrupted
        let fz = if i % 4 == 3 { mutate(&fsrc.z, &mut r).0 } else { fsrc.z.clone() };
        tr.case(&format!("rs-dec-{}", i), prop, json!({"hist": hz.len(), "follow": fz.len(), "follow_valid": i % 4 != 3}));
        let mut a = DecompressorOxide::new();
        let hs = r.gen();
        let _ = run_dec(&mut a, &hz, hsrc.zlib, hs, r.gen_range(0..10));
        a.init();
        let mut b = DecompressorOxide::new();
        let fs: u64 = r.gen();
        let ra = run_dec(&mut a, &fz, fsrc.zlib, fs, 300);
        let rb = run_dec(&mut b, &fz, fsrc.zlib, fs, 300);
        let mut mm = pairs(tr, "decode_after_init_vs_fresh", &ra, &rb);
        // InflateState policies
        let ffmt = if fsrc.zlib { DataFormat::Zlib } else { DataFormat::Raw };
        let hfmt = if hsrc.zlib { DataFormat::Zlib } else { DataFormat::Raw };
        for pol in 0..3 {
            // MinReset / ZeroReset keep the format: history must use the follow-up's format
            let fmt0 = if pol == 2 { hfmt } else { ffmt };
            let mut s = InflateState::new_boxed(fmt0);
            let _ = run_inf(&mut s, &hz, hs.wrapping_add(pol), r.gen_range(0..10));
            match pol {
                0 => s.reset_as(MinReset),
                1 => s.reset_as(ZeroReset),
                _ => s.reset_as(FullReset(ffmt)),
            }
            let mut t = InflateState::new_boxed(ffmt);
            let ra = run_inf(&mut s, &fz, fs, 300);
            let rb = run_inf(&mut t, &fz, fs, 300);
            mm |= pairs(tr, ["inflate_after_MinReset_vs_fresh", "inflate_after_ZeroReset_vs_fresh", "inflate_after_FullReset_vs_fresh"][pol as usize], &ra, &rb);
        }
        if i >= n { tr.release(mm); }
    }
    // --- ZeroReset / FullReset promise a zeroed window: a follow-up stream whose first match reaches
    // before its own start (the wrapper then reads the window's previous contents) must see the same
    // bytes as on a new state, also after a history of more than one window. (MinReset documents that
    // it keeps the old window; it is not part of this comparison.)
    for k in 0..(if o.thorough { 12 } else { 4 }) {
        let hist = gen::data(["period300", "text", "rand", "period20000"][k % 4], 40_000 + 9000 * k, &mut r);
        let cfg = Cfg { zlib: false, level: [6u8, 1, 0, 9][k % 4], strat: 0, wbits: 15, api: "params" };
        let hz = crate::scn_dec::make_stream(&hist, &cfg, false, &mut r);
        let mut e = gen::Enc::new();
        e.begin_fixed(true);
        e.lit(b'x');
        e.p.extend(std::iter::repeat(0u8).take(40_000));   // pretend history so that the encoder accepts the distance
        e.mat(50, [100usize, 5000, 32000][k % 3]);
        e.end_block();
        let (fz, _) = e.finish();
        tr.case(&format!("rs-zero-{}", k), prop, json!({"hist": hz.len()}));
        for pol in 1..3 {
            let mut s = InflateState::new_boxed(DataFormat::Raw);
            let _ = run_inf(&mut s, &hz, 77 + k as u64, 100_000);
            if pol == 1 { s.reset_as(ZeroReset) } else { s.reset_as(FullReset(DataFormat::Raw)) }
            let mut t = InflateState::new_boxed(DataFormat::Raw);
            let fs = 1000 + k as u64;
            let ra = run_inf(&mut s, &fz, fs, 300);
            let rb = run_inf(&mut t, &fz, fs, 300);
            let _ = pairs(tr, ["", "inflate_window_after_ZeroReset_vs_fresh", "inflate_window_after_FullReset_vs_fresh"][pol], &ra, &rb);
        }
    }
    // --- C deflate stream reset
    for i in 0..(n / 2) {
        use miniz_oxide_c_api::*;
        let h = gen::data(kinds[i % kinds.len()], r.gen_range(0..20_000), &mut r);
        let f = gen::data(kinds[(i + 2) % kinds.len()], r.gen_range(0..5000), &mut r);
        let level = [0i32, 1, 6, 9][i % 4];
        tr.case(&format!("rs-c-{}", i), prop, json!({}));
        let run = |s: &mut mz_stream, d: &[u8], seed: u64, maxc: usize, fin: bool| -> Vec<Value> {
            let mut r = StdRng::seed_from_u64(seed);
            let mut res = Vec::new();
            let mut pos = 0;
            for _ in 0..maxc {
                let rem = d.len() - pos;
                let ch = match r.gen_range(0..4) { 0 => 0, 1 => r.gen_range(0..100), _ => rem }.min(rem);
                let ol = match r.gen_range(0..4) { 0 => 1, 1 => r.gen_range(1..300), _ => 100_000 };
                let fl = if fin && ch == rem { 4 } else { [0, 0, 2, 3][r.gen_range(0..4)] };
                let mut out = vec![0u8; ol];
                s.next_in = d[pos..].as_ptr(); s.avail_in = ch as u32; s.next_out = out.as_mut_ptr(); s.avail_out = ol as u32;
                let rc = unsafe { mz_deflate(s, fl) };
                let used = ch - s.avail_in as usize;
                let w = ol - s.avail_out as usize;
                res.push(json!({"ret": rc, "consumed": used, "written": w, "data": bytes(&out[..w]), "total_in": s.total_in as u64, "total_out": s.total_out as u64}));
                pos += used;
                if rc != 0 { break; }
            }
            res
        };
        let mut a = mz_stream::default();
        let mut b = mz_stream::default();
        unsafe { mz_deflateInit(&mut a, level); mz_deflateInit(&mut b, level); }
        let _ = run(&mut a, &h, r.gen(), r.gen_range(0..8), r.gen());
        let rc = unsafe { mz_deflateReset(&mut a) };
        tr.ev(json!({"ev": "pair", "what": "mz_deflateReset_ret", "a": rc, "b": 0}));
        let fs: u64 = r.gen();
        let ra = run(&mut a, &f, fs, 300, true);
        let rb = run(&mut b, &f, fs, 300, true);
        let _ = pairs(tr, "mz_deflate_after_reset_vs_fresh", &ra, &rb);
        unsafe { mz_deflateEnd(&mut a); mz_deflateEnd(&mut b); }
    }
}

/// C19: clone / serde snapshots at every inter-call point, block-boundary rebuild.
/// output bytes of a continuation: verbatim when short, length + Adler-32 (computed by the harness,
/// not by the crate) when long
fn out_val(b: &[u8]) -> Value {
    if b.len() > 4000 {
        json!({"len": b.len(), "adler": crate::comp::pair_json(crate::comp::adler_pair(b))})
    } else {
        bytes(b)
    }
}

pub fn scn_snapshots(o: &Opts, tr: &mut Tr, prop: &str) {
    let mut r = gen::rng(o.seed, 1919);
    let mut srcs = sources(o, &mut r, false);
    // streams with several blocks
    for k in 0..(if o.thorough { 12 } else { 5 }) {
        let d = gen::data(["text", "mixed", "alpha4", "rand", "runs"][k % 5], r.gen_range(200..6000), &mut r);
        let zl = k % 2 == 0;
        let cfg = Cfg { zlib: zl, level: [1u8, 6, 0, 9][k % 4], strat: 0, wbits: 15, api: "params" };
        let z = make_stream(&d, &cfg, true, &mut r);
        srcs.push(crate::scn_dec::Src { name: format!("multi{}", k), z, p: d, zlib: zl });
    }
    // more than one 32 KiB window of output with matches reaching (almost) a whole window back:
    // copies taken after the streaming wrapper's window has wrapped must carry the previous lap
    for (k, (period, n)) in [(20_000usize, 70_000usize), (32_768, 100_000), (30_000, 75_000), (32_000, 66_000)].iter().enumerate() {
        if !o.thorough && k >= 3 { break; }
        let d = gen::data(&format!("period{}", period), *n, &mut r);
        let zl = k % 2 == 0;
        let cfg = Cfg { zlib: zl, level: [6u8, 9, 1, 6][k % 4], strat: 0, wbits: 15, api: "params" };
        let z = make_stream(&d, &cfg, k % 2 == 0, &mut r);
        srcs.push(crate::scn_dec::Src { name: format!("win{}", period), z, p: d, zlib: zl });
    }
    let nsample = srcs.len();
    // cheap exploration: more streams, written out only when some fork disagrees
    for k in 0..(if o.thorough { 1500 } else { 300 }) {
        let d = gen::data(["text", "mixed", "alpha4", "rand", "runs", "litmatch", "zeros"][k % 7], r.gen_range(0..5000), &mut r);
        let zl = k % 2 == 0;
        let cfg = Cfg { zlib: zl, level: [1u8, 6, 0, 9, 2][k % 5], strat: [0usize, 0, 4, 2, 3][k % 5], wbits: 15, api: "params" };
        let z = make_stream(&d, &cfg, k % 3 != 0, &mut r);
        srcs.push(crate::scn_dec::Src { name: format!("bulk{}", k), z, p: d, zlib: zl });
    }
    for (si, s) in srcs.iter().enumerate() {
        let base = if s.zlib { TINFL_FLAG_PARSE_ZLIB_HEADER } else { 0 };
        for variant in 0..2 {
            let mut mism = false;
            if si >= nsample { tr.hold(); }
            let z = if variant == 0 { s.z.clone() } else { if s.z.len() > 2000 { if si >= nsample { tr.release(false); } continue; } mutate(&s.z, &mut r).0 };
            tr.case(&format!("snap-{}-{}-{}", s.name, si, if variant == 0 { "valid" } else { "mutant" }), prop, json!({"zlen": z.len()}));
            tr.ev(stream_event(&z, if variant == 0 { Some(&s.p) } else { None }, s.zlib, json!({"cap": 30000})));
            // reference run along a schedule, forking at each inter-call point
            let sched_seed: u64 = r.gen();
            let osz = 40_000.max(s.p.len() + 10);
            let cont = |d: &mut DecompressorOxide, out: &mut Vec<u8>, mut ip: usize, mut op: usize, rs: &mut StdRng| -> Value {
                // continue to the end; returns the summary of the remainder
                let start_op = op;
                let mut last = String::new();
                for _ in 0..5000 {
                    let rem = z.len() - ip;
                    let ch = match rs.gen_range(0..4) { 0 => 1.min(rem), 1 => rs.gen_range(0..40).min(rem), _ => rem };
                    let more = ip + ch < z.len();
                    let flags = base | TINFL_FLAG_USING_NON_WRAPPING_OUTPUT_BUF | if more { TINFL_FLAG_HAS_MORE_INPUT } else { 0 };
                    let (st, used, w) = decompress(d, &z[ip..ip + ch], out, op, flags);
                    ip += used.min(ch);
                    op += w;
                    last = st_name(st);
                    if st != TINFLStatus::NeedsMoreInput && !(st == TINFLStatus::HasMoreOutput && op < out.len()) {
                        break;
                    }
                }
                json!({"status": last, "consumed_total": ip, "out": out_val(&out[start_op..op.min(out.len())])})
            };
            let mut d = DecompressorOxide::new();
            let mut out = vec![0u8; osz];
            let (mut ip, mut op) = (0usize, 0usize);
            let mut rs = StdRng::seed_from_u64(sched_seed);
            let mut points = 0;
            let mut forks: Vec<(Value, usize)> = Vec::new();
            let mut final_status = String::new();
            for _ in 0..400 {
                // fork here (before the next call)
                if points < (if o.thorough { 40 } else { 12 }) && rs.gen_range(0..3) != 0 {
                    points += 1;
                    let fork_seed: u64 = rs.gen();
                    let mut o0 = out.clone();
                    let mut d0 = d.clone();
                    let r0 = cont(&mut d0, &mut o0, ip, op, &mut StdRng::seed_from_u64(fork_seed));
                    forks.push((r0.clone(), op));
                    // clone of a clone
                    let mut o1 = out.clone();
                    let mut d1 = d.clone().clone();
                    let r1 = cont(&mut d1, &mut o1, ip, op, &mut StdRng::seed_from_u64(fork_seed));
                    mism |= emit_pair(tr, "clone_resumes_identically", &r0, &r1);
                    // serde_json round trip
                    let js = serde_json::to_string(&d).unwrap();
                    let mut d2: DecompressorOxide = serde_json::from_str(&js).unwrap();
                    let mut o2 = out.clone();
                    let r2 = cont(&mut d2, &mut o2, ip, op, &mut StdRng::seed_from_u64(fork_seed));
                    mism |= emit_pair(tr, "serde_json_copy_resumes_identically", &r0, &r2);
                    // rmp-serde round trip
                    let mp = rmp_serde::to_vec(&d).unwrap();
                    let mut d3: DecompressorOxide = rmp_serde::from_slice(&mp).unwrap();
                    let mut o3 = out.clone();
                    let r3 = cont(&mut d3, &mut o3, ip, op, &mut StdRng::seed_from_u64(fork_seed));
                    mism |= emit_pair(tr, "rmp_serde_copy_resumes_identically", &r0, &r3);
                }
                let rem = z.len() - ip;
                let ch = match rs.gen_range(0..5) { 0 => 0, 1 => 1.min(rem), 2 => rs.gen_range(0..30).min(rem), 3 => rs.gen_range(0..300).min(rem), _ => if z.len() < 3000 { rs.gen_range(0..=rem.min(64)) } else { rem } };
                let more = ip + ch < z.len();
                let flags = base | TINFL_FLAG_USING_NON_WRAPPING_OUTPUT_BUF | if more { TINFL_FLAG_HAS_MORE_INPUT } else { 0 };
                let (st, used, w) = decompress(&mut d, &z[ip..ip + ch], &mut out, op, flags);
                ip += used.min(ch);
                op += w;
                final_status = st_name(st);
                if st != TINFLStatus::NeedsMoreInput && !(st == TINFLStatus::HasMoreOutput && op < out.len()) {
                    break;
                }
            }
            // every fork must have finished exactly like the decoder that was never copied
            if ip == z.len() || final_status != "NeedsMoreInput" {
                for (r0, fop) in forks.iter() {
                    let want = json!({"status": final_status, "consumed_total": ip, "out": out_val(&out[*fop..op.min(out.len())])});
                    mism |= emit_pair(tr, "copy_finishes_like_the_uninterrupted_decoder", r0, &want);
                }
            }
            // InflateState is Clone too: fork the streaming wrapper between calls
            {
                let fmt = if s.zlib { DataFormat::Zlib } else { DataFormat::Raw };
                let mut st = InflateState::new_boxed(fmt);
                let mut rs = StdRng::seed_from_u64(sched_seed ^ 0x77);
                let mut ip = 0usize;
                let cont_inf = |st: &mut InflateState, mut ip: usize, rs: &mut StdRng| -> Value {
                    let mut got = Vec::new();
                    let mut last = String::new();
                    for _ in 0..4000 {
                        let rem = z.len() - ip;
                        let ch = match rs.gen_range(0..3) { 0 => 1.min(rem), 1 => rs.gen_range(0..50).min(rem), _ => rem };
                        let ol = [1usize, 17, 300, 50_000][rs.gen_range(0..4)];
                        let mut o = vec![0u8; ol];
                        let rr = inflate(st, &z[ip..ip + ch], &mut o, MZFlush::None);
                        ip += rr.bytes_consumed.min(ch);
                        got.extend_from_slice(&o[..rr.bytes_written.min(ol)]);
                        last = crate::comp::mz_result(&rr.status);
                        if rr.status != Ok(miniz_oxide::MZStatus::Ok) && !(rr.status == Err(miniz_oxide::MZError::Buf) && ip < z.len()) {
                            break;
                        }
                    }
                    json!({"status": last, "consumed_total": ip, "out": out_val(&got)})
                };
                let long = s.p.len() > 40_000;
                for step in 0..(if long { 90 } else { 60 }) {
                    if step % 2 == 0 {
                        let fs: u64 = rs.gen();
                        let keep = st.clone();
                        if step % 4 == 2 {
                            // the continuation is one finishing call with everything still to come: the
                            // object that was never copied against a copy of it
                            let fin_once = |st: &mut InflateState, ip: usize| -> Value {
                                let mut o = vec![0u8; s.p.len() + 70_000];
                                let rr = inflate(st, &z[ip..], &mut o, MZFlush::Finish);
                                json!({"status": crate::comp::mz_result(&rr.status), "consumed": rr.bytes_consumed, "out": out_val(&o[..rr.bytes_written.min(o.len())])})
                            };
                            let ro = fin_once(&mut st, ip);
                            let mut a = keep.clone();
                            let ra = fin_once(&mut a, ip);
                            mism |= emit_pair(tr, "inflate_state_clone_finishes_identically", &ro, &ra);
                        } else {
                            // the original itself runs to the end; a copy taken before must do the same
                            let ro = cont_inf(&mut st, ip, &mut StdRng::seed_from_u64(fs));
                            let mut a = keep.clone();
                            let ra = cont_inf(&mut a, ip, &mut StdRng::seed_from_u64(fs));
                            mism |= emit_pair(tr, "inflate_state_clone_resumes_identically", &ro, &ra);
                        }
                        st = keep;
                    }
                    let rem = z.len() - ip;
                    if rem == 0 { break; }
                    let ch = rs.gen_range(0..=rem.min(if long { (z.len() / 40).max(40) } else { 40 }));
                    let mut o = vec![0u8; if long { [9usize, 200, 5000, 20_000][rs.gen_range(0..4)] } else { [1usize, 9, 200][rs.gen_range(0..3)] }];
                    let rr = inflate(&mut st, &z[ip..ip + ch], &mut o, MZFlush::None);
                    ip += rr.bytes_consumed.min(ch);
                    if rr.status != Ok(miniz_oxide::MZStatus::Ok) && rr.status != Err(miniz_oxide::MZError::Buf) { break; }
                }
            }
            // block boundaries
            let mut d = DecompressorOxide::new();
            let mut out = vec![0u8; osz];
            let (mut ip, mut op) = (0usize, 0usize);
            let mut count = 0;
            let mut rs = StdRng::seed_from_u64(sched_seed ^ 0x55);
            for _ in 0..3000 {
                let rem = z.len() - ip;
                let ch = match rs.gen_range(0..4) { 0 => 1.min(rem), 1 => rs.gen_range(0..60).min(rem), _ => rem };
                let more = ip + ch < z.len();
                let flags = base | TINFL_FLAG_USING_NON_WRAPPING_OUTPUT_BUF | TINFL_FLAG_STOP_ON_BLOCK_BOUNDARY | if more { TINFL_FLAG_HAS_MORE_INPUT } else { 0 };
                let (st, used, w) = decompress(&mut d, &z[ip..ip + ch], &mut out, op, flags);
                ip += used.min(ch);
                op += w;
                if st == TINFLStatus::BlockBoundary {
                    count += 1;
                    if s.zlib {
                        // C16: the running checksum covers the output produced so far at a boundary stop too
                        let want = crate::comp::adler_pair(&out[..op]);
                        let got = d.adler32().map(crate::comp::adler_pair_of_u32);
                        tr.ev(json!({"ev": "pair", "what": "decoder_adler_covers_the_output_at_a_block_boundary",
                                     "a": got.map(crate::comp::pair_json), "b": crate::comp::pair_json(want)}));
                    }
                    let bbs = d.block_boundary_state();
                    match bbs {
                        None => tr.ev(json!({"ev": "pair", "what": "block_boundary_state_available", "a": false, "b": true})),
                        Some(b) => {
                            tr.ev(json!({"ev": "bb", "in_total": ip, "out_total": op, "num_bits": b.num_bits, "bit_buf": b.bit_buf}));
                            // uninterrupted continuation
                            let fork_seed: u64 = rs.gen();
                            let mut o0 = out.clone();
                            let mut d0 = d.clone();
                            let r0 = cont(&mut d0, &mut o0, ip, op, &mut StdRng::seed_from_u64(fork_seed));
                            // rebuilt from the documented record + preceding 32 KiB of output only
                            let rec = if s.zlib { b.clone() } else {
                                BlockBoundaryState { num_bits: b.num_bits, bit_buf: b.bit_buf, ..Default::default() }
                            };
                            let mut d1 = DecompressorOxide::from_block_boundary_state(&rec);
                            let keep = op.min(32768);
                            let mut o1 = vec![0xDDu8; osz];
                            o1[op - keep..op].copy_from_slice(&out[op - keep..op]);
                            let r1 = cont(&mut d1, &mut o1, ip, op, &mut StdRng::seed_from_u64(fork_seed));
                            mism |= emit_pair(tr, "rebuilt_from_block_boundary_record_resumes_identically", &r0, &r1);
                            // the record itself survives serialisation
                            let js = serde_json::to_string(&rec).unwrap();
                            let rec2: BlockBoundaryState = serde_json::from_str(&js).unwrap();
                            let mut d2 = DecompressorOxide::from_block_boundary_state(&rec2);
                            let mut o2 = o1.clone();
                            o2[op..].iter_mut().for_each(|x| *x = 0xDD);
                            let r2 = cont(&mut d2, &mut o2, ip, op, &mut StdRng::seed_from_u64(fork_seed));
                            mism |= emit_pair(tr, "serialised_block_boundary_record_resumes_identically", &r0, &r2);
                        }
                    }
                    continue;
                }
                if st != TINFLStatus::NeedsMoreInput && !(st == TINFLStatus::HasMoreOutput && op < out.len()) {
                    break;
                }
            }
            tr.ev(json!({"ev": "bb_end", "count": count}));
            // the same with a 32 KiB ring as output (the caller drains it after every call): at each
            // boundary a decoder rebuilt from the record continues in a copy of the ring
            if variant == 0 && s.p.len() > 33_000 {
                let ring = 32768usize;
                let cont_ring = |d: &mut DecompressorOxide, rb: &mut Vec<u8>, mut ip: usize, mut total: usize, rs: &mut StdRng| -> Value {
                    let mut got: Vec<u8> = Vec::new();
                    let mut last = String::new();
                    for _ in 0..20000 {
                        let rem = z.len() - ip;
                        let ch = match rs.gen_range(0..3) { 0 => rs.gen_range(0..200).min(rem), _ => rem };
                        let more = ip + ch < z.len();
                        let flags = base | if more { TINFL_FLAG_HAS_MORE_INPUT } else { 0 };
                        let pos = total & (ring - 1);
                        let (st, used, w) = decompress(d, &z[ip..ip + ch], rb, pos, flags);
                        ip += used.min(ch);
                        got.extend_from_slice(&rb[pos..(pos + w).min(ring)]);
                        total += w;
                        last = st_name(st);
                        if st != TINFLStatus::NeedsMoreInput && st != TINFLStatus::HasMoreOutput { break; }
                        if st == TINFLStatus::NeedsMoreInput && ip == z.len() { break; }
                    }
                    json!({"status": last, "consumed_total": ip, "out": out_val(&got)})
                };
                let mut d = DecompressorOxide::new();
                let mut rb = vec![0u8; ring];
                let (mut ip, mut total) = (0usize, 0usize);
                let mut rs = StdRng::seed_from_u64(sched_seed ^ 0x99);
                for _ in 0..20000 {
                    let rem = z.len() - ip;
                    let ch = match rs.gen_range(0..3) { 0 => rs.gen_range(0..300).min(rem), _ => rem };
                    let more = ip + ch < z.len();
                    let flags = base | TINFL_FLAG_STOP_ON_BLOCK_BOUNDARY | if more { TINFL_FLAG_HAS_MORE_INPUT } else { 0 };
                    let pos = total & (ring - 1);
                    let (st, used, w) = decompress(&mut d, &z[ip..ip + ch], &mut rb, pos, flags);
                    ip += used.min(ch);
                    total += w;
                    if st == TINFLStatus::BlockBoundary {
                        if let Some(b) = d.block_boundary_state() {
                            let fork_seed: u64 = rs.gen();
                            let mut d0 = d.clone();
                            let mut r0b = rb.clone();
                            let r0 = cont_ring(&mut d0, &mut r0b, ip, total, &mut StdRng::seed_from_u64(fork_seed));
                            let rec = if s.zlib { b.clone() } else {
                                BlockBoundaryState { num_bits: b.num_bits, bit_buf: b.bit_buf, ..Default::default() }
                            };
                            let mut d1 = DecompressorOxide::from_block_boundary_state(&rec);
                            let mut r1b = rb.clone();
                            let r1 = cont_ring(&mut d1, &mut r1b, ip, total, &mut StdRng::seed_from_u64(fork_seed));
                            mism |= emit_pair(tr, "rebuilt_from_block_boundary_record_resumes_identically_in_a_ring", &r0, &r1);
                        }
                        continue;
                    }
                    if st != TINFLStatus::NeedsMoreInput && st != TINFLStatus::HasMoreOutput { break; }
                    if st == TINFLStatus::NeedsMoreInput && ip == z.len() { break; }
                }
            }
            if si >= nsample { tr.release(mism); }
        }
    }
}
