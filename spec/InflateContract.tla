--------------------------- MODULE InflateContract ---------------------------
(***************************************************************************)
(* Per-call contracts of the decoder-side API (C03-C08, C13): what any     *)
(* correct implementation must satisfy on each call given what the format  *)
(* acceptor (Rfc1951) says about the stream.  Deliberately permissive      *)
(* where the properties are: read-ahead, how much of the offered input is  *)
(* consumed before output fills up, which tier decodes, when exactly an    *)
(* invalid stream is detected.                                             *)
(*                                                                         *)
(* Knowledge about the stream, `k`:                                        *)
(*   k.v        "done" | "rej" | "starved" | "unknown"                     *)
(*   k.why      reject reason                                              *)
(*   k.plen     plaintext length      (v = "done")                         *)
(*   k.endbyte  exact encoded length  (v = "done")                         *)
(*   k.prefix   TRUE when the supplied bytes are known to be a proper      *)
(*              prefix of a valid stream                                   *)
(* Plaintext bytes are compared by the trace spec (it has the data).       *)
(*                                                                         *)
(* Low-level decoder object state `d`:                                     *)
(*   cin, cout  totals consumed / produced;  failed  sticky failure seen;  *)
(*   done       Done was returned;  fin  the stream finished (Done or checksum verdict);  last  last status;  dig  Adler pair of *)
(*   all output (schedule-equivalence digest);  wrap  ring mode            *)
(***************************************************************************)
EXTENDS Integers, Sequences

Iff(name, c) == IF c THEN <<>> ELSE <<name>>

DInit == [cin |-> 0, cout |-> 0, failed |-> FALSE, done |-> FALSE, fin |-> FALSE, last |-> "None",
          dig |-> <<1, 0>>, ncalls |-> 0, stuck |-> 0]

IsPow2OrZero(n) == n = 0 \/ \E j \in 0..30 : n = 2 ^ j

\* unusable output geometry (decompress_with_limit's parameter check)
BadGeometry(e) == (e.wrap /\ ~IsPow2OrZero(e.out_len)) \/ e.out_pos > e.out_len

Space(e) == LET room == e.out_len - e.out_pos
            IN IF e.out_max >= 0 /\ e.out_max < room THEN e.out_max ELSE room

StickyFail(s) == s \in {"Failed", "Adler32Mismatch"}
Negative(s) == s \in {"Failed", "Adler32Mismatch", "BadParam", "FailedCannotMakeProgress"}

\* rules of one low-level decode call; `okdata` = the bytes written equal the plaintext
\* at [d.cout+1 .. d.cout+written] (computed by the caller when k.v = "done")
DecRules(d, e, k, okdata) ==
  LET bad == BadGeometry(e)
      sp == IF bad THEN 0 ELSE Space(e)
  IN Iff("dec_bad_param_iff_unusable_geometry", (e.status = "BadParam") = bad)
  \o Iff("dec_bad_param_reports_nothing", e.status = "BadParam" => e.consumed = 0 /\ e.written = 0)
  \o Iff("dec_consumed_le_offered", e.consumed <= e.in_len)
  \o Iff("dec_written_le_granted", e.written <= sp)
  \o Iff("dec_outside_region_untouched", e.outside_ok)
  \o Iff("dec_has_more_output_only_when_region_full", e.status = "HasMoreOutput" => e.written = sp)
  \o Iff("dec_needs_more_input_only_when_all_consumed",
         e.status = "NeedsMoreInput" => e.consumed = e.in_len /\ e.more)
  \o Iff("dec_cannot_make_progress_only_without_more_flag",
         e.status = "FailedCannotMakeProgress" => ~e.more)
  \* (a checksum mismatch is a verdict on a finished stream: it stays finished, and the
  \* verdict is repeated for as long as the caller keeps the same checksum flags)
  \o Iff("dec_failure_is_sticky", d.failed /\ ~bad =>
            IF d.fin
              THEN e.status \in {"Adler32Mismatch", "Done"} /\ e.written = 0 /\ e.consumed = 0
              ELSE e.status = "Failed")
  \* (a caller that switches the zlib/checksum flags on after the end can still get a
  \* checksum verdict; nothing is read or written any more either way)
  \o Iff("dec_done_is_stable", d.fin /\ ~bad =>
            e.status \in {"Done", "Adler32Mismatch"} /\ e.written = 0 /\ e.consumed = 0)
  \o Iff("dec_no_success_on_invalid_stream",
         e.status = "Done" /\ k.v \in {"rej", "starved"} =>
            k.v = "rej" /\ k.why = "dist_before_start" /\ e.wrap)
  \o Iff("dec_bad_trailer_is_checksum_mismatch",
         k.v = "rej" /\ k.why = "adler" /\ e.status \in {"Failed", "Adler32Mismatch"} => e.status = "Adler32Mismatch")
  \o Iff("dec_done_consumes_exact_stream_length",
         e.status = "Done" /\ k.v = "done" /\ ~d.done => d.cin + e.consumed = k.endbyte)
  \o Iff("dec_done_with_complete_output",
         e.status = "Done" /\ k.v = "done" /\ ~d.done => d.cout + e.written = k.plen)
  \o Iff("dec_output_equals_plaintext", k.v = "done" => okdata)
  \o Iff("dec_valid_stream_not_rejected",
         k.v = "done" /\ ~bad /\ ~d.failed => e.status \notin {"Failed", "Adler32Mismatch"})
  \o Iff("dec_prefix_of_valid_stream_not_rejected",
         k.prefix /\ ~bad =>
            /\ e.status \notin {"Failed", "Adler32Mismatch", "Done"}
            /\ (e.more => e.status \in {"NeedsMoreInput", "HasMoreOutput"})
            /\ (~e.more => e.status \in {"FailedCannotMakeProgress", "HasMoreOutput"}))

DecNext(d, e, newdig) ==
  IF e.status = "BadParam" THEN [d EXCEPT !.ncalls = @ + 1]
  ELSE [d EXCEPT !.cin = @ + e.consumed, !.cout = @ + e.written,
                 !.failed = @ \/ StickyFail(e.status), !.done = @ \/ e.status = "Done",
                 !.fin = @ \/ e.status \in {"Done", "Adler32Mismatch"},
                 !.last = e.status, !.dig = newdig, !.ncalls = @ + 1,
                 !.stuck = IF e.consumed = 0 /\ e.written = 0 THEN @ + 1 ELSE 0]

-----------------------------------------------------------------------------
(* Streaming inflate wrapper inflate(): C13                                *)
(*   tin, tout  totals;  ended  StreamEnd returned;  dataerr  sticky;      *)
(*   fin  a Finish call was made;  first  no call yet;  dead  a terminal   *)
(*   buffer error (truncated stream under Finish) was returned             *)

SInit == [tin |-> 0, tout |-> 0, ended |-> FALSE, dataerr |-> FALSE, fin |-> FALSE,
          first |-> TRUE, dead |-> FALSE, ncalls |-> 0, dig |-> <<1, 0>>]

InfRules(s, e, k, okdata) ==
  LET live == ~s.ended /\ ~s.dataerr /\ ~s.dead
      okst == e.status \in {"Ok", "StreamEnd"}
  IN Iff("inf_consumed_le_offered", e.consumed <= e.in_len)
  \o Iff("inf_written_le_offered", e.written <= e.out_len)
  \o Iff("inf_delivered_is_prefix_of_plaintext", k.v = "done" => okdata)
  \o Iff("inf_full_flush_is_stream_error",
         e.flush = "Full" => e.status = "ErrStream" /\ e.consumed = 0 /\ e.written = 0)
  \o Iff("inf_data_error_is_sticky", s.dataerr /\ e.flush # "Full" => e.status = "ErrData")
  \o Iff("inf_non_finish_after_finish_is_stream_error",
         live /\ s.fin /\ e.flush \notin {"Finish", "Full"} => e.status = "ErrStream")
  \o Iff("inf_progress_or_terminal",
         live /\ e.flush # "Full" /\ ~(s.fin /\ e.flush # "Finish") /\ e.in_len > 0 /\ e.out_len > 0 =>
            e.consumed + e.written > 0 \/ e.status # "Ok")
  \* a buffer error (outside Finish) means "starved": it is never the answer to a call that brings input
  \* and output space, so supplying input always gets a stream going again
  \o Iff("inf_buf_error_only_when_starved",
         live /\ ~s.fin /\ e.flush \in {"None", "Sync"} /\ e.in_len > 0 /\ e.out_len > 0 => e.status # "ErrBuf")
  \o Iff("inf_stream_end_iff_all_delivered_and_consumed",
         okst /\ k.v = "done" =>
            ((e.status = "StreamEnd") = (s.tout + e.written = k.plen /\ s.tin + e.consumed = k.endbyte)))
  \o Iff("inf_no_stream_end_on_invalid_stream",
         e.status = "StreamEnd" /\ k.v \in {"rej", "starved"} =>
            \* the wrapper decodes into a 32 KiB ring: a distance before the start of the
            \* output reads the ring's previous contents (C04 excludes only flat buffers)
            k.v = "rej" /\ k.why = "dist_before_start")
  \o Iff("inf_stream_end_is_stable",
         s.ended /\ e.flush # "Full" /\ ~(s.fin /\ e.flush # "Finish") =>
            e.status = "StreamEnd" /\ e.consumed = 0 /\ e.written = 0)
  \o Iff("inf_valid_stream_no_data_error", k.v = "done" /\ ~s.dead => e.status # "ErrData")
  \o Iff("inf_finish_on_truncated_stream_is_buf_error",
         live /\ k.prefix /\ e.flush = "Finish" /\ e.out_len > 0 /\ e.all_input =>
            \* (Ok only while delivering output that was still pending in the window)
            e.status = "ErrBuf" \/ (e.status = "Ok" /\ e.written > 0))
  \o Iff("inf_prefix_never_data_error", k.prefix /\ ~s.dead => e.status # "ErrData")

InfNext(s, e, newdig) ==
  [s EXCEPT !.tin = @ + e.consumed, !.tout = @ + e.written,
            !.ended = @ \/ e.status = "StreamEnd",
            !.dataerr = @ \/ e.status = "ErrData",
            !.fin = @ \/ (e.flush = "Finish" /\ ~s.dataerr /\ ~s.dead),
            !.dead = @ \/ (e.status = "ErrBuf" /\ e.flush = "Finish"),
            !.first = FALSE, !.ncalls = @ + 1, !.dig = newdig]

=============================================================================
