--------------------------- MODULE DeflateHelpers ---------------------------
(***************************************************************************)
(* compress_to_vec / compress_to_vec_zlib (miniz_oxide/src/deflate/mod.rs, *)
(* compress_to_vec_inner) over the DeflateCore model of compress(): one    *)
(* compressor, the whole input offered with Finish on every call, an       *)
(* output vector that starts at max(n/2, 2) bytes and is doubled whenever  *)
(* fewer than GROWMIN (30 in the code) bytes of it are left after a call.  *)
(* The function panics ("Bug! Unexpectedly failed to compress!") on any    *)
(* status other than Done / Okay - C01 says it never does, and that it     *)
(* returns one complete stream of the whole input.                         *)
(***************************************************************************)
EXTENDS DeflateCore

CONSTANT GROWMIN

VARIABLES
  hpc,      \* "start" | "loop" | "done" | "panic"
  cap,      \* output.len()
  opos,     \* out_pos
  hwait,    \* a compress() call has been issued and not yet examined
  iters     \* number of compress() calls made
hvars == <<vars, hpc, cap, opos, hwait, iters>>

MaxH(a, b) == IF a >= b THEN a ELSE b

HInit ==
  /\ Init
  /\ hpc = "loop" /\ cap = MaxH(NIN \div 2, 2) /\ opos = 0 /\ hwait = FALSE /\ iters = 0

HIssue ==
  /\ hpc = "loop" /\ pc = "idle" /\ ~hwait
  /\ Call(NIN - taken, cap - opos, "Finish")
  /\ hwait' = TRUE /\ iters' = iters + 1
  /\ UNCHANGED <<hpc, cap, opos>>

HInner ==
  /\ hpc = "loop" /\ pc # "idle"
  /\ (BadParam \/ Drain \/ Take \/ Tokenise \/ InternalFlush \/ Finishup)
  /\ UNCHANGED <<hpc, cap, opos, hwait, iters>>

HExamine ==
  /\ hpc = "loop" /\ pc = "idle" /\ hwait
  /\ hwait' = FALSE
  /\ LET o2 == opos + res.written
     IN /\ opos' = o2
        /\ IF res.status = "Done" THEN hpc' = "done" /\ cap' = o2        \* truncate
           ELSE IF res.status = "Okay" /\ res.consumed <= res.in_len
             THEN hpc' = "loop" /\ cap' = (IF cap - o2 < GROWMIN THEN 2 * cap ELSE cap)
           ELSE hpc' = "panic" /\ cap' = cap
  /\ UNCHANGED <<vars, iters>>

HNext == HIssue \/ HInner \/ HExamine
HSpec == HInit /\ [][HNext]_hvars
HFair == HSpec /\ WF_hvars(HNext)

-----------------------------------------------------------------------------
NeverPanics == hpc # "panic"
\* the returned vector is one complete stream of the whole input: everything taken, everything
\* generated was delivered into the vector, framing complete
ReturnsWholeStream ==
  hpc = "done" => /\ taken = NIN /\ la = 0 /\ lz = 0 /\ Pending = 0 /\ fin
                  /\ nfinal = 1 /\ ~badorder /\ (Zlib => ntrl = 1) /\ cap = opos
\* what has been written never exceeds the vector
WithinVector == opos <= cap
\* every call either consumes input, delivers output, or is followed by a larger vector: the loop
\* is bounded (a generous explicit bound; the liveness config checks termination proper)
IterationsBounded == iters <= 4 * (NIN + 8)
Terminates == <>(hpc = "done")
=============================================================================
