------------------------------ MODULE Checksums ------------------------------
(***************************************************************************)
(* Adler-32 (RFC 1950 section 8.2) and CRC-32 (ISO 3309 / ITU-T V.42,      *)
(* polynomial 0xEDB88320 reflected, initial value and final XOR            *)
(* 0xFFFFFFFF) by definition.  TLC integers are 32-bit signed, so a 32-bit *)
(* value is carried as the pair <<hi16, lo16>>.                            *)
(*                                                                         *)
(* The incremental hasher is the state machine                             *)
(*     state' = Update(state, chunk)                                       *)
(* whose invariant (checked in spec/mc/MC_Checksums) is                    *)
(*     state = checksum of everything fed so far, for every split.         *)
(***************************************************************************)
EXTENDS Integers, Sequences, SequencesExt, Bitwise

\* ---- Adler-32: value = s2 * 65536 + s1, i.e. <<hi, lo>> = <<s2, s1>>
AdlerStep(acc, x) ==
  LET s1 == (acc[2] + x) % 65521 IN <<(acc[1] + s1) % 65521, s1>>
AdlerUpdate(start, data) == FoldLeft(AdlerStep, start, data)
AdlerInitHL == <<0, 1>>
Adler32(data) == AdlerUpdate(AdlerInitHL, data)

\* ---- CRC-32 on halves
Xor16(a, b) == a ^^ b
ShiftR1(v) == <<v[1] \div 2, (v[2] \div 2) + 32768 * (v[1] % 2)>>
PolyHL == <<60856, 33568>>          \* 0xEDB8, 0x8320
BitStep(v) == IF v[2] % 2 = 1
                THEN LET s == ShiftR1(v) IN <<Xor16(s[1], PolyHL[1]), Xor16(s[2], PolyHL[2])>>
                ELSE ShiftR1(v)
Bits8(v) == BitStep(BitStep(BitStep(BitStep(BitStep(BitStep(BitStep(BitStep(v))))))))
CrcTable == [i \in 0..255 |-> Bits8(<<0, i>>)]
\* one byte on the internal (pre-inverted) register
CrcReg(v, x) ==
  LET idx == Xor16(v[2] % 256, x)
      sh == <<v[1] \div 256, (v[2] \div 256) + 256 * (v[1] % 256)>>
      t == CrcTable[idx]
  IN <<Xor16(sh[1], t[1]), Xor16(sh[2], t[2])>>
Inv(v) == <<65535 - v[1], 65535 - v[2]>>
\* update a *finalised* crc value with more data (zlib's crc32(crc, buf, len))
CrcUpdate(start, data) == Inv(FoldLeft(CrcReg, Inv(start), data))
Crc32(data) == CrcUpdate(<<0, 0>>, data)

=============================================================================
