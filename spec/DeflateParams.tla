---------------------------- MODULE DeflateParams ----------------------------
(***************************************************************************)
(* The compressor's configuration logic as pure operators, transcribed     *)
(* from miniz_oxide/src/deflate/core.rs and deflate/zlib.rs:               *)
(*   create_comp_flags_from_zip_params, limit_level_by_window_bits,        *)
(*   CompressorOxide::with_params / new / set_format_and_level,            *)
(*   window_bits_from_flags, zlib_level_from_flags, header_from_flags,     *)
(*   and the routing predicate at the top of compress_inner,               *)
(* together with the token capability of each route (what kind of tokens   *)
(* the LZ loop behind the route can emit).                                 *)
(*                                                                         *)
(* It is a finite function, so TLC enumerates it completely                *)
(* (spec/mc/MC_DeflateParams).  The trace specs use the same operators to  *)
(* derive what a configuration requires of the emitted tokens (C10, C11)   *)
(* and to compare the flags the real constructors computed (conformance).  *)
(***************************************************************************)
EXTENDS Integers, Sequences

NumProbes == <<0, 1, 6, 32, 16, 32, 128, 256, 512, 768, 1500>>

F_ZLIB    == 4096        \* TDEFL_WRITE_ZLIB_HEADER
F_ADLER   == 8192        \* TDEFL_COMPUTE_ADLER32
F_GREEDY  == 16384       \* TDEFL_GREEDY_PARSING_FLAG
F_NONDET  == 32768
F_RLE     == 65536       \* TDEFL_RLE_MATCHES
F_FILTER  == 131072      \* TDEFL_FILTER_MATCHES
F_STATIC  == 262144      \* TDEFL_FORCE_ALL_STATIC_BLOCKS
F_RAW     == 524288      \* TDEFL_FORCE_ALL_RAW_BLOCKS
ProbesMask == 4096

Has(flags, f) == (flags \div f) % 2 = 1
Probes(flags) == flags % ProbesMask

\* strategies as the integers of CompressionStrategy
S_Default == 0
S_Filtered == 1
S_HuffmanOnly == 2
S_RLE == 3
S_Fixed == 4

MinI(a, b) == IF a <= b THEN a ELSE b
MaxI(a, b) == IF a >= b THEN a ELSE b

\* create_comp_flags_from_zip_params(level: i32, window_bits: i32, strategy: i32)
CreateFlags(level, wbits, strategy) ==
  LET np == IF level >= 0 THEN MinI(level, 10) ELSE 6
      greedy == IF level <= 3 THEN F_GREEDY ELSE 0
      base == NumProbes[np + 1] + greedy + (IF wbits > 0 THEN F_ZLIB ELSE 0)
  IN IF level = 0 THEN base + F_RAW
     ELSE IF strategy = S_Filtered THEN base + F_FILTER
     ELSE IF strategy = S_HuffmanOnly THEN base - NumProbes[np + 1]
     ELSE IF strategy = S_Fixed THEN base + F_STATIC
     ELSE IF strategy = S_RLE THEN base + F_RLE
     ELSE base

\* limit_level_by_window_bits(window_bits: u8, level, strategy) -> <<level, strategy>>
LimitLevel(wbits, level, strategy) ==
  IF wbits < 12
    THEN IF strategy # S_HuffmanOnly /\ level # 0 THEN <<1, S_RLE>> ELSE <<level, strategy>>
  ELSE IF wbits < 15 THEN <<MinI(level, 1), strategy>>
  ELSE <<level, strategy>>

\* CompressorOxide::with_params(format, level: u8, strategy, window_bits: u8)
\*   -> [flags, wbmax]  (wbmax = params.window_bits_max)
WithParams(zlib, level, strategy, wbits) ==
  LET wb == MinI(wbits, 15)
      lv == MinI(level, 10)
      ls == LimitLevel(wb, lv, strategy)
      \* change_window_bits_from_format: the sign carries the format (0 maps to 1 for zlib)
  IN [flags |-> CreateFlags(ls[1], IF zlib THEN MaxI(wb, 1) ELSE -wb, ls[2]), wbmax |-> wb,
      elevel |-> ls[1], estrategy |-> ls[2]]

\* compress_to_vec[_zlib](input, level: u8) and CompressorOxide::new(flags)
OneShot(zlib, level) ==
  [flags |-> CreateFlags(level, IF zlib THEN 1 ELSE 0, S_Default), wbmax |-> 15,
   elevel |-> MinI(level, 10), estrategy |-> S_Default]

FromFlagsApi(zlib, level, strategy) ==
  [flags |-> CreateFlags(level, IF zlib THEN 15 ELSE -15, strategy), wbmax |-> 15,
   elevel |-> MinI(level, 10), estrategy |-> strategy]

\* window_bits_from_flags (note: the first disjunct `RAW & RLE` of the code is
\* always zero and therefore omitted)
WindowBitsFromFlags(flags) ==
  IF Probes(flags) = 0 THEN 1 ELSE IF Probes(flags) = 1 THEN 12 ELSE 15

\* set_format_and_level(format, level: u8) on a compressor c = [flags, wbmax]
SetFormatAndLevel(c, zlib, level) ==
  LET f == CreateFlags(level, IF zlib THEN 15 ELSE -15, S_Default)
  IN IF zlib /\ WindowBitsFromFlags(f) > c.wbmax THEN c ELSE [c EXCEPT !.flags = f]

\* zlib_level_from_flags
ZlibLevel(flags) ==
  IF Has(flags, F_GREEDY) \/ Has(flags, F_RLE)
    THEN (IF Probes(flags) <= 1 THEN 0 ELSE 1)
  ELSE IF Probes(flags) >= NumProbes[10] THEN 3 ELSE 2

\* header_from_flags(flags, window_bits_max) -> <<cmf, flg>>
Header(flags, wbmax) ==
  LET cmf == 8 + 16 * MaxI(wbmax - 8, 0)
      flg0 == 64 * ZlibLevel(flags)
      rem == (cmf * 256 + flg0) % 31
  IN <<cmf % 256, (flg0 - (flg0 % 32)) + (31 - rem)>>

DeclaredWindow(hdr) == 2 ^ ((hdr[1] \div 16) + 8)

\* routing at the top of compress_inner
Route(flags) ==
  LET one_probe == Probes(flags) = 1
      greedy == Has(flags, F_GREEDY)
      filter_or_rle == Has(flags, F_FILTER) \/ Has(flags, F_RAW) \/ Has(flags, F_RLE)
  IN IF Has(flags, F_RAW) THEN "stored"
     ELSE IF one_probe /\ greedy /\ ~filter_or_rle THEN "fast"
     ELSE "normal"

(* Token capability of a route: the largest match distance the LZ loop can *)
(* emit (0 = no matches at all).  Both match-finding routes bound the      *)
(* distance by min(dict.size, 1 << clamp(window_bits_max, 8, 15)); the     *)
(* fast route consults neither the RLE nor the filter flag (the routing    *)
(* mask keeps such configurations away from it).                           *)
MaxDist(flags, wbmax) ==
  LET win == 2 ^ MinI(MaxI(wbmax, 8), 15)
  IN CASE Route(flags) = "stored" -> 0
       [] Route(flags) = "fast"   -> MinI(32768, win)
       [] OTHER -> IF Probes(flags) = 0 THEN 0
                   ELSE IF Has(flags, F_RLE) THEN 1
                   ELSE MinI(32768, win)

\* smallest match length a route can emit (259 = none)
MinMatchLen(flags) ==
  CASE Route(flags) = "stored" -> 259
    [] Route(flags) = "fast" -> 3
    [] OTHER -> IF Probes(flags) = 0 THEN 259
                ELSE IF Has(flags, F_FILTER) THEN 6 ELSE 3

\* block types flush_block can choose: 0 stored, 1 fixed, 2 dynamic
BlockTypes(flags) ==
  IF Has(flags, F_RAW) THEN {0}
  ELSE IF Has(flags, F_STATIC) THEN {0, 1}     \* stored fallback when expanding
  ELSE {0, 1, 2}

-----------------------------------------------------------------------------
(* What a *requested* configuration requires of the emitted tokens (C10),  *)
(* stated over the effective level/strategy (after the documented          *)
(* window-bits limiting) - independent of flags and routing.               *)

ReqOnlyStored(elevel) == elevel = 0
ReqNoDynamic(elevel, estrategy) == elevel # 0 /\ estrategy = S_Fixed
ReqNoMatches(elevel, estrategy) == elevel = 0 \/ estrategy = S_HuffmanOnly
ReqOnlyDist1(elevel, estrategy) == elevel # 0 /\ estrategy = S_RLE
ReqMinLen5(elevel, estrategy) == elevel # 0 /\ estrategy = S_Filtered
\* matching is enabled: redundancy must be exploited
ReqMatching(elevel, estrategy) == elevel >= 1 /\ estrategy \in {S_Default, S_Filtered, S_Fixed}

=============================================================================
