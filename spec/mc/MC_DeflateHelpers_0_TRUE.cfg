SPECIFICATION HFair
CONSTANTS
  NIN = 0
  LA = 2
  LZCAP = 3
  OUTBUF = 4
  Zlib = TRUE
  OutChoices = {1}
  MaxItems = 50
  GROWMIN = 2
INVARIANTS NeverPanics ReturnsWholeStream WithinVector IterationsBounded PendingIsPrefix Framing
PROPERTY Terminates
CHECK_DEADLOCK FALSE
