SPECIFICATION BSpec
CONSTANTS
  SIZE = 64
  MARGIN = 4
INVARIANTS NoOverflow StepBound RoomAtStepStart
CHECK_DEADLOCK FALSE
