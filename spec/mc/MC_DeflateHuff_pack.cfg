SPECIFICATION Spec
CONSTANTS
  Mode = "pack"
  NSym = 0
  CountSet = {0}
  Limits = {0}
  LenSet = {0, 1, 2}
  MaxLen = 10
  PackC <- PackSmall
  Mut = "none"
INVARIANTS PackRulesHold
CHECK_DEADLOCK FALSE
