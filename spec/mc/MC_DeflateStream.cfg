SPECIFICATION SpecS
CONSTANTS
  NIN = 3
  LA = 2
  LZCAP = 2
  OUTBUF = 4
  Zlib = TRUE
  OutChoices = {1, 20}
  MaxItems = 5
CONSTRAINT Bound
INVARIANTS WrapperContractHolds WrapperCounts StreamEndTruthful PendingIsPrefix Framing
CHECK_DEADLOCK FALSE
