--------------------------- MODULE MC_DeflateHuff ---------------------------
(***************************************************************************)
(* Exhaustive check of the transcription in DeflateHuff.tla at small        *)
(* alphabets and limits:                                                    *)
(*  Mode "huff": every count vector in [1..NSym -> CountSet] and every      *)
(*   limit in Limits with (used symbols) <= 2^limit: the sizes and codes    *)
(*   of the model satisfy HfRules, are tidy, and are optimal whenever the   *)
(*   unlimited code already fits the limit.                                 *)
(*  Mode "pack": every sequence over LenSet of length 0..MaxLen: the items  *)
(*   the packer produces decode back to the sequence and respect their      *)
(*   ranges (scaled run limits in PackC).                                   *)
(* Mut names a design mutation; the configs *_mut.cfg show that the         *)
(* invariants reject it.                                                    *)
(***************************************************************************)
EXTENDS DeflateHuff

CONSTANTS Mode, NSym, CountSet, Limits, LenSet, MaxLen, PackC, Mut

VARIABLES counts, limit, sizes, lens, items, done
vars == <<counts, limit, sizes, lens, items, done>>

PackReal == [rep |-> 6, z17 |-> 10, z18 |-> 138]
PackSmall == [rep |-> 4, z17 |-> 4, z18 |-> 6]
UsedN(c) == Cardinality({i \in 1..Len(c) : c[i] > 0})

Init ==
  /\ done = FALSE /\ sizes = <<>> /\ items = <<>>
  /\ IF Mode = "huff"
       THEN /\ counts \in [1..NSym -> CountSet] /\ limit \in Limits
            /\ UsedN(counts) <= HfP2(limit)
            /\ lens = <<>>
       ELSE /\ counts = <<>> /\ limit = 0
            /\ \E n \in 0..MaxLen : lens \in [1..n -> LenSet]

Build ==
  /\ ~done /\ Mode = "huff"
  /\ sizes' = HfModelSizesMut(counts, limit, Mut)
  /\ done' = TRUE
  /\ UNCHANGED <<counts, limit, lens, items>>

Pack ==
  /\ ~done /\ Mode = "pack"
  /\ items' = HfPack(lens, PackC)
  /\ done' = TRUE
  /\ UNCHANGED <<counts, limit, sizes, lens>>

Next == Build \/ Pack
Spec == Init /\ [][Next]_vars

ModelCodes == LET cn == HfCanon(sizes) IN [i \in 1..Len(sizes) |-> HfRev(cn[i], sizes[i])]

RulesHold == (done /\ Mode = "huff") => HfRules(counts, sizes, ModelCodes, limit) = <<>>
Tidy == (done /\ Mode = "huff") => HfTidy(counts, sizes)
\* when the unlimited minimum-redundancy code fits the limit, the result is an optimal prefix code
Optimal ==
  (done /\ Mode = "huff" /\ UsedN(counts) >= 2 /\ HfUnlimitedDepth(counts) <= limit) =>
     HfCost(counts, sizes, 1) =
       HfOptCost(LET s == HfSorted(counts) IN [j \in 1..Len(s) |-> counts[s[j]]])
PackRulesHold == (done /\ Mode = "pack") => HfPackRules(lens, items, PackC) = <<>>
=============================================================================
