SPECIFICATION Spec
CONSTANTS
  Mode = "huff"
  NSym = 6
  CountSet = {0, 1, 2, 3, 5, 9}
  Limits = {2, 3, 4, 5}
  LenSet = {0}
  MaxLen = 0
  PackC <- PackReal
  Mut = "none"
INVARIANTS RulesHold Tidy Optimal
CHECK_DEADLOCK FALSE
