SPECIFICATION Spec
CONSTANTS
  Levels = {0,1,2,3,4,5,6,7,8,9,10,11,12,128,255}
  WBits = {0,1,7,8,9,10,11,12,13,14,15,16,200,255}
  SetLevels = {0,1,2,3,4,5,6,7,8,9,10,11,12,128,255}
INVARIANTS HeaderValid DeclaredLeRequested DistLeDeclared Level0Stored FixedNoDynamic
  HuffOnlyNoMatches RleOnlyDist1 FilteredMinLen MatchingEnabled LevelClamp FormatAsRequested
CHECK_DEADLOCK FALSE
