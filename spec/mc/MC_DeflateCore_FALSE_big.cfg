SPECIFICATION Spec
CONSTANTS
  NIN = 5
  LA = 2
  LZCAP = 3
  OUTBUF = 4
  Zlib = FALSE
  OutChoices = {1, 3, 20}
  MaxItems = 6
CONSTRAINT Bound
INVARIANTS ContractHolds PendingIsPrefix Conservation Framing DoneTruthful FlushPoint FullCutsHistory CountsWithinOffered
CHECK_DEADLOCK FALSE
