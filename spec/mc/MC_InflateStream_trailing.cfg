SPECIFICATION Spec
CONSTANTS
  N = 6
  M = 5
  DICT = 4
  Kind = "trailing"
  Trail = 2
  TruncAt = 3
  CorruptAt = 3
  InChoices = {0, 1, 2, 99}
  OutChoices = {0, 1, 3, 8}
INVARIANTS ContractHolds WindowInRange Conservation CountsWithinOffered StreamEndExact NoFalseEnd LoopBounded
CHECK_DEADLOCK FALSE
