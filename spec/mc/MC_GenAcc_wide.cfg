\* exhaustive over the wide ("counts") code-length palettes: one block, every wide literal/length
\* palette x every wide distance palette x header coding options, one token
SPECIFICATION Spec
CONSTANTS
  MaxBlocks = 1
  MaxTokens = 1
  Lits = {65}
  LitChoices = {0, 65, 255}
  AllowCorrupt = FALSE
  AllowRuns = FALSE
  Sim = FALSE
  DynOnly = FALSE
  DynOpts <- FewDynOpts
  LitPalette <- WideLit
  DistPalette <- WideDistPlus
  LenChoices <- SmallLen
  DistChoices <- SmallDistC
INVARIANT Agree
CHECK_DEADLOCK FALSE
