---------------------------- MODULE MC_Checksums ----------------------------
(***************************************************************************)
(* The incremental hasher as a state machine: feeding the data in any      *)
(* split gives the checksum of the concatenation (C16).  All byte strings  *)
(* over Alphabet up to MaxLen, every way of cutting them into chunks of    *)
(* 0..MaxChunk bytes.  Also checks the values against published test       *)
(* vectors, which guards the transcription of the definitions themselves.  *)
(***************************************************************************)
EXTENDS Checksums, TLC

CONSTANTS Alphabet, MaxLen, MaxChunk

VARIABLES fed, ad, crc
vars == <<fed, ad, crc>>

Chunks == UNION {[1..n -> Alphabet] : n \in 0..MaxChunk}

Init == fed = <<>> /\ ad = AdlerInitHL /\ crc = <<0, 0>>

Feed(c) ==
  /\ Len(fed) + Len(c) <= MaxLen
  /\ fed' = fed \o c
  /\ ad' = AdlerUpdate(ad, c)
  /\ crc' = CrcUpdate(crc, c)

Next == \E c \in Chunks : Feed(c)
Spec == Init /\ [][Next]_vars

\* the running state is the checksum of everything fed so far, whatever the split
Composes == ad = Adler32(fed) /\ crc = Crc32(fed)

\* published vectors: "a", "abc", "123456789" (CRC-32 check value 0xCBF43926), "Wikipedia" (Adler 0x11E60398)
Str(s) == s
Vectors ==
  /\ Adler32(<<97>>) = <<98, 98>>                         \* 0x00620062
  /\ Adler32(<<97, 98, 99>>) = <<589, 295>>               \* 0x024D0127
  /\ Adler32(<<87, 105, 107, 105, 112, 101, 100, 105, 97>>) = <<4582, 920>>   \* 0x11E60398
  /\ Crc32(<<49, 50, 51, 52, 53, 54, 55, 56, 57>>) = <<52212, 14630>>         \* 0xCBF43926
  /\ Crc32(<<97>>) = <<59575, 48707>>                     \* 0xE8B7BE43
  /\ Crc32(<<>>) = <<0, 0>> /\ Adler32(<<>>) = <<0, 1>>
=============================================================================
