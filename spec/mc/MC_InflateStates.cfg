SPECIFICATION Spec
INVARIANTS TypeOK DoneOnlyAtEnd TrailerOnlyZlib BoundaryOnlyNonFinal StatusNeedsCause Collect
PROPERTY FailureSticky
CHECK_DEADLOCK FALSE
