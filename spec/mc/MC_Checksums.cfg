SPECIFICATION Spec
CONSTANTS
  Alphabet = {0, 1, 255}
  MaxLen = 6
  MaxChunk = 3
INVARIANTS Composes Vectors
CHECK_DEADLOCK FALSE
