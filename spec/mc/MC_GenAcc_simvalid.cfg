SPECIFICATION Spec
CONSTANTS
  MaxBlocks = 5
  MaxTokens = 40
  Lits = {0, 65, 255}
  LitChoices = {0, 1, 65, 66, 67, 97, 100, 200, 255}
  AllowCorrupt = FALSE
  AllowRuns = TRUE
  Sim = TRUE
  DynOpts <- AllDynOpts
INVARIANTS Agree Emit
CHECK_DEADLOCK FALSE
