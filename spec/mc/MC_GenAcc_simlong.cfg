\* simulation biased towards long distance code words in several dynamic blocks of one stream
SPECIFICATION Spec
CONSTANTS
  MaxBlocks = 4
  MaxTokens = 30
  Lits = {0, 65, 255}
  LitChoices = {0, 1, 65, 66, 67, 97, 100, 200, 255}
  AllowCorrupt = FALSE
  AllowRuns = TRUE
  Sim = TRUE
  DynOnly = TRUE
  DynOpts <- AllDynOpts
  LitPalette <- LongLit
  DistPalette <- WideDist
  LenChoices <- LongLen
  DistChoices <- LongDistC
INVARIANTS Agree Emit
CHECK_DEADLOCK FALSE
