SPECIFICATION Spec
CONSTANTS
  MaxN = 40
  MaxK = 6
  Huge = 100000
INVARIANTS NeverOverLimit SuccessIffFits
PROPERTIES Terminates Grows
CHECK_DEADLOCK FALSE
