\* simulation biased towards "block without distance code after a block with one"
SPECIFICATION Spec
CONSTANTS
  MaxBlocks = 3
  MaxTokens = 6
  Lits = {65}
  LitChoices = {65, 66}
  AllowCorrupt = TRUE
  AllowRuns = FALSE
  Sim = TRUE
  DynOnly = FALSE
  DynOpts <- FewDynOpts
  LitPalette <- StaleLit
  DistPalette <- StaleDist
INVARIANTS Agree Emit
CHECK_DEADLOCK FALSE
