\* simulation biased towards far matches made of maximal code words and extra bits
SPECIFICATION Spec
CONSTANTS
  MaxBlocks = 2
  MaxTokens = 40
  Lits = {0, 65, 255}
  LitChoices = {0, 1, 65, 66, 67, 97, 100, 200, 255}
  AllowCorrupt = FALSE
  AllowRuns = TRUE
  Sim = TRUE
  DynOnly = TRUE
  DynOpts <- AllDynOpts
  LitPalette <- FarLit
  DistPalette <- FarDist
  LenChoices <- FarLen
  DistChoices <- FarDistC
INVARIANTS Agree Emit
CHECK_DEADLOCK FALSE
