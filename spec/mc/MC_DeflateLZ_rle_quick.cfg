SPECIFICATION Spec
CONSTANTS
  DICT = 8
  MAXM = 4
  MINM = 3
  N = 9
  Alphabet = {0, 1}
  RLE = TRUE
  GREEDY = FALSE
  MUT = "none"
  FlushSet = {"None", "Full", "Finish"}
INVARIANT StateRulesHold
INVARIANT StateRulesHoldAlways
INVARIANT TokensDecodeToInput
INVARIANT SavedMatchValid
INVARIANT FlushComplete
CHECK_DEADLOCK FALSE
