SPECIFICATION Spec
CONSTANTS
  DICT = 8
  MAXM = 4
  MINM = 3
  N = 11
  Alphabet = {0, 1}
  RLE = FALSE
  GREEDY = TRUE
  MUT = "none"
  FlushSet = {"None", "Sync", "Full", "Finish"}
INVARIANT StateRulesHold
INVARIANT StateRulesHoldAlways
INVARIANT TokensDecodeToInput
INVARIANT SavedMatchValid
INVARIANT FlushComplete
CHECK_DEADLOCK FALSE
