SPECIFICATION Spec
CONSTANTS
  MaxBlocks = 4
  MaxTokens = 12
  Lits = {0, 65, 255}
  LitChoices = {0, 1, 65, 66, 67, 97, 100, 200, 255}
  AllowCorrupt = TRUE
  AllowRuns = TRUE
  Sim = TRUE
  DynOnly = FALSE
  DynOpts <- AllDynOpts
INVARIANTS Agree Emit
CHECK_DEADLOCK FALSE
