---------------------------- MODULE MC_InflateCore ----------------------------
EXTENDS InflateCore

F(b, y) == [bits |-> b, yield |-> y, kind |-> "field"]
Al == [bits |-> 0, yield |-> 0, kind |-> "align"]
Raw(y) == [bits |-> 0, yield |-> y, kind |-> "raw"]
Tr == [bits |-> 32, yield |-> 0, kind |-> "trailer"]

\* zlib: header, fixed block with two literals and a match, end of block, trailer
LZlib == <<F(16, 0), F(3, 0), F(8, 1), F(9, 1), F(20, 3), F(7, 0), Al, Tr>>
\* raw: stored block (bytes partly in the bit buffer), then a final Huffman block ending mid-byte
LStored == <<F(3, 0), Al, F(32, 0), Raw(3), F(3, 0), F(8, 1), F(7, 0)>>
\* long fields: a 15-bit literal, a 48-bit match, dynamic-header sized fields
LLong == <<F(3, 0), F(14, 0), F(15, 1), F(48, 2), F(15, 0)>>
=============================================================================
