SPECIFICATION HFair
CONSTANTS
  NIN = 1
  LA = 2
  LZCAP = 3
  OUTBUF = 4
  Zlib = FALSE
  OutChoices = {1}
  MaxItems = 50
  GROWMIN = 2
INVARIANTS NeverPanics ReturnsWholeStream WithinVector IterationsBounded PendingIsPrefix Framing
PROPERTY Terminates
CHECK_DEADLOCK FALSE
