SPECIFICATION Spec
INVARIANTS MisuseIsError NoTypeConfusion TagImpliesNothing
PROPERTY TotalsStable RefusalKeepsState
CHECK_DEADLOCK FALSE
