SPECIFICATION Spec
INVARIANTS MisuseIsError NoTypeConfusion TagImpliesNothing
PROPERTY TotalsStable
CHECK_DEADLOCK FALSE
