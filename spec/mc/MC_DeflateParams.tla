-------------------------- MODULE MC_DeflateParams --------------------------
(***************************************************************************)
(* Exhaustive check of the configuration logic: every (api, format, level, *)
(* strategy, window bits) a caller can pass is an initial state; from      *)
(* every state set_format_and_level(format, level) may be applied (as a    *)
(* caller may do before compressing).  The invariants are the              *)
(* configuration-level halves of C09, C10, C11 and the level clamp of C01. *)
(***************************************************************************)
EXTENDS DeflateParams, TLC

CONSTANTS Levels, WBits,      \* sets of u8 values enumerated for the constructors
          SetLevels         \* levels tried by set_format_and_level

VARIABLES c,      \* [flags, wbmax, elevel, estrategy]: compressor configuration state
          req     \* [api, zlib, level, strategy, wbits]: what the caller asked for
vars == <<c, req>>

Strategies == 0..4

Init ==
  \/ \E zl \in BOOLEAN, lv \in Levels, st \in Strategies, wb \in WBits :
        /\ c = WithParams(zl, lv, st, wb)
        /\ req = [api |-> "params", zlib |-> zl, level |-> lv, strategy |-> st, wbits |-> wb]
  \/ \E zl \in BOOLEAN, lv \in Levels :
        /\ c = OneShot(zl, lv)
        /\ req = [api |-> "vec", zlib |-> zl, level |-> lv, strategy |-> 0, wbits |-> 15]
  \/ \E zl \in BOOLEAN, lv \in Levels, st \in Strategies :
        /\ c = FromFlagsApi(zl, lv, st)
        /\ req = [api |-> "flags", zlib |-> zl, level |-> lv, strategy |-> st, wbits |-> 15]

\* set_format_and_level / set_compression_level[_raw]
SetLevel(zl, lv) ==
  LET n == SetFormatAndLevel(c, zl, lv)
      accepted == n # c \/ n.flags = c.flags
  IN /\ c' = IF n.flags # c.flags
               THEN [n EXCEPT !.elevel = MinI(lv, 10), !.estrategy = S_Default]
               ELSE c
     /\ req' = [req EXCEPT !.api = "set"]

Next == \E zl \in BOOLEAN, lv \in SetLevels : SetLevel(zl, lv)
Spec == Init /\ [][Next]_vars

IsZlib == Has(c.flags, F_ZLIB)
Hdr == Header(c.flags, c.wbmax)

\* C09: the header written for any reachable configuration is valid per RFC 1950
HeaderValid ==
  IsZlib => /\ Hdr[1] % 16 = 8
            /\ Hdr[1] \div 16 <= 7
            /\ (Hdr[2] \div 32) % 2 = 0
            /\ (Hdr[1] * 256 + Hdr[2]) % 31 = 0
            /\ Hdr[1] \in 0..255 /\ Hdr[2] \in 0..255

\* C11: declared window no larger than requested, and it bounds every distance the
\* chosen route can emit
DeclaredLeRequested ==
  (IsZlib /\ req.api = "params" /\ req.wbits \in 8..15) => DeclaredWindow(Hdr) <= 2 ^ MaxI(req.wbits, 8)
DistLeDeclared ==
  IsZlib => MaxDist(c.flags, c.wbmax) <= DeclaredWindow(Hdr)

\* C10: the route's token capability honours the effective level / strategy
Level0Stored == ReqOnlyStored(c.elevel) => Route(c.flags) = "stored" /\ BlockTypes(c.flags) = {0}
FixedNoDynamic == ReqNoDynamic(c.elevel, c.estrategy) => 2 \notin BlockTypes(c.flags)
HuffOnlyNoMatches == ReqNoMatches(c.elevel, c.estrategy) => MaxDist(c.flags, c.wbmax) = 0
RleOnlyDist1 == ReqOnlyDist1(c.elevel, c.estrategy) => MaxDist(c.flags, c.wbmax) <= 1
FilteredMinLen == ReqMinLen5(c.elevel, c.estrategy) => MinMatchLen(c.flags) >= 5
MatchingEnabled == ReqMatching(c.elevel, c.estrategy) => MaxDist(c.flags, c.wbmax) >= 256 /\ MinMatchLen(c.flags) <= 6

\* C01: levels above 10 behave as 10
LevelClamp ==
  \A zl \in BOOLEAN, lv \in Levels : lv > 10 => OneShot(zl, lv).flags = OneShot(zl, 10).flags

\* the format requested is the format produced (window_bits = 0 means raw in with_params)
FormatAsRequested ==
  req.api \in {"vec", "flags", "params"} => IsZlib = req.zlib

\* vacuity guards: each antecedent above is reachable (checked by a deliberately violated
\* invariant in the self-test config)
Reach_Rle == ~(ReqOnlyDist1(c.elevel, c.estrategy) /\ IsZlib)
=============================================================================
