---------------------------- MODULE MC_DeflateLZ ----------------------------
EXTENDS DeflateLZ
\* bound the number of calls per behaviour through the input length only (every call may be empty,
\* but an empty call with the same flush changes nothing, so the state space stays finite)
=============================================================================
