SPECIFICATION DriverSpec
CONSTANTS
  N = 6
  M = 5
  DICT = 4
  Kind = "valid"
  Trail = 2
  TruncAt = 3
  CorruptAt = 3
  InChoices = {1, 2, 99}
  OutChoices = {1, 3, 8}
PROPERTIES DriverTerminates DriverCompletes
CHECK_DEADLOCK FALSE
