\* exhaustive (quick): one block, reduced palettes, all dynamic options, two tokens
SPECIFICATION Spec
CONSTANTS
  MaxBlocks = 1
  MaxTokens = 2
  Lits = {65}
  LitChoices = {65, 66}
  AllowCorrupt = TRUE
  AllowRuns = FALSE
  Sim = FALSE
  DynOnly = FALSE
  DynOpts <- AllDynOpts
  LitPalette <- SmallLit
  DistPalette <- SmallDist
  LenChoices <- SmallLen
  DistChoices <- SmallDistC
INVARIANT Agree
CHECK_DEADLOCK FALSE
