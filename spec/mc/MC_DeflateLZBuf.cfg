SPECIFICATION BSpec
CONSTANTS
  SIZE = 64
  MARGIN = 8
INVARIANTS NoOverflow StepBound RoomAtStepStart
CHECK_DEADLOCK FALSE
