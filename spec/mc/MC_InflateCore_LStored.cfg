SPECIFICATION Spec
CONSTANTS
  Layout <- LStored
  TRAIL = 2
  MaxBudget = 3
  WBUF = 64
INVARIANTS BitBufferSane CleanExitKeepsNoWholeByte StarvedExitNeedsAllBits CountsWithinOffered ExactEnd NeverPastEnd StatusTruthful
CHECK_DEADLOCK FALSE
