------------------------------ MODULE MC_GenAcc ------------------------------
(***************************************************************************)
(* Generator composed with acceptor: two independent descriptions of the   *)
(* format must agree.  Every stream DeflateGen can build is run through    *)
(* Rfc1951; the acceptor must accept it with exactly the generator's       *)
(* plaintext and exact length - or reject it for exactly the labelled      *)
(* reason.  This is the consistency check that guards the oracle.          *)
(*                                                                         *)
(* In -simulate mode each finished behaviour is also appended as one JSON  *)
(* line to IOEnv.GEN_OUT (if set) for replay into the real decoder.        *)
(***************************************************************************)
EXTENDS DeflateGen, Json, IOUtils

VARIABLES acc, zb
vars == <<gvars, acc, zb>>

NoAcc == [ph |-> "none"]

AllDynOpts == {<<a, b, c, d>> : a \in BOOLEAN, b \in BOOLEAN, c \in BOOLEAN, d \in {"all19", "used"}}
FewDynOpts == {<<FALSE, FALSE, TRUE, "used">>, <<TRUE, TRUE, FALSE, "all19">>}
SmallLit == {[syms |-> <<256>>, shape |-> "single"],
             [syms |-> <<65, 66, 256, 257>>, shape |-> "balanced"],
             [syms |-> <<256, 65, 66, 67, 257, 258, 264, 285>>, shape |-> "chain"]}
SmallDist == {[syms |-> <<>>, shape |-> "none"], [syms |-> <<0>>, shape |-> "single"],
              [syms |-> <<0, 1, 2, 29>>, shape |-> "balanced"]}
StaleLit == {[syms |-> <<65, 66, 256, 257>>, shape |-> "balanced"],
             [syms |-> <<256, 65, 66, 67, 257, 258, 264, 285>>, shape |-> "chain"]}
StaleDist == {[syms |-> <<>>, shape |-> "none"], [syms |-> <<0>>, shape |-> "single"], [syms |-> <<0, 3>>, shape |-> "balanced"]}
WideDistPlus == WideDist \cup {[syms |-> <<>>, shape |-> "none"]}
\* biased towards matches whose distance code words are long (11..15 bits) and carry many extra bits
LongLit == {[syms |-> <<65, 66, 67, 68, 69, 70, 0, 255, 257, 258, 265, 269, 273, 284, 285, 256>>, shape |-> "chain"],
            [syms |-> <<0, 1, 2, 3, 10, 32, 65, 66, 97, 98, 99, 100, 101, 127, 128, 200, 254, 255, 256, 257, 258, 259,
                        260, 261, 262, 263, 264, 268, 272, 280, 284, 285>>, shape |-> "balanced"]}
               \cup {w \in WideLit : w.name \in {"flat89_asc", "edge_eob", "w11_desc"}}
LongDistC == {<<10, 0>>, <<11, 15>>, <<12, 0>>, <<13, 63>>, <<16, 127>>, <<18, 255>>, <<20, 511>>, <<22, 1023>>, <<24, 0>>,
              <<25, 2047>>, <<26, 4095>>, <<28, 0>>, <<29, 8191>>, <<0, 0>>, <<5, 0>>}
LongLen == {<<257, 0>>, <<258, 0>>, <<265, 1>>, <<269, 3>>, <<273, 7>>, <<280, 15>>, <<284, 30>>, <<285, 0>>}
\* far matches made of the longest code words with the most extra bits (the bit budget of one
\* refill in a decoder's fast loop: length extra + distance code + distance extra)
FarLit == {w \in WideLit : w.name \in {"flat89_asc", "flat89_desc", "edge_asc"}}
FarDist == {w \in WideDist : w.name = "dlong_asc"}
FarDistC == {<<28, 0>>, <<28, 4095>>, <<29, 8191>>, <<29, 1>>, <<27, 4000>>, <<26, 4095>>, <<25, 2047>>, <<24, 0>>, <<0, 0>>}
FarLen == {<<284, 30>>, <<284, 0>>, <<283, 17>>, <<281, 31>>, <<280, 15>>, <<276, 9>>, <<273, 7>>, <<285, 0>>, <<257, 0>>}
SmallLen == {<<257, 0>>, <<285, 0>>}
SmallDistC == {<<0, 0>>, <<2, 0>>}

Init == GInit /\ acc = NoAcc /\ zb = <<>>

Gen == /\ ph # "done" /\ GNext /\ UNCHANGED <<acc, zb>>

StartAcc ==
  /\ ph = "done" /\ acc = NoAcc
  /\ zb' = StreamBytes
  /\ acc' = AccInit(zl, FALSE, {}, Len(plain), FALSE, 0)
  /\ UNCHANGED gvars

RunAcc ==
  /\ acc # NoAcc /\ ~Terminal(acc)
  /\ acc' = Step(acc, zb, plain)
  /\ UNCHANGED <<gvars, zb>>

Next == Gen \/ StartAcc \/ RunAcc
Spec == Init /\ [][Next]_vars

Agree ==
  (acc # NoAcc /\ Terminal(acc)) =>
     IF expect = "done"
       THEN acc.ph = "done" /\ acc.out = Len(plain) /\ acc.endbyte = Len(zb)
       ELSE acc.ph = "rej" /\ acc.why = why

\* simulate mode: emit the finished behaviour
Rec == [z |-> zb, p |-> plain, zlib |-> zl, expect |-> expect, why |-> why,
        feats |-> SetToSeq(feats), nblk |-> nblk]
Emit ==
  (acc # NoAcc /\ Terminal(acc) /\ "GEN_OUT" \in DOMAIN IOEnv) =>
     Serialize(ToJson(Rec) \o "\n", IOEnv.GEN_OUT,
               [format |-> "TXT", charset |-> "UTF-8", openOptions |-> <<"WRITE", "CREATE", "APPEND">>]).exitValue = 0
=============================================================================
