------------------------------ MODULE MC_GenAcc ------------------------------
(***************************************************************************)
(* Generator composed with acceptor: two independent descriptions of the   *)
(* format must agree.  Every stream DeflateGen can build is run through    *)
(* Rfc1951; the acceptor must accept it with exactly the generator's       *)
(* plaintext and exact length - or reject it for exactly the labelled      *)
(* reason.  This is the consistency check that guards the oracle.          *)
(*                                                                         *)
(* In -simulate mode each finished behaviour is also appended as one JSON  *)
(* line to IOEnv.GEN_OUT (if set) for replay into the real decoder.        *)
(***************************************************************************)
EXTENDS DeflateGen, Json, IOUtils

VARIABLES acc, zb
vars == <<gvars, acc, zb>>

NoAcc == [ph |-> "none"]

AllDynOpts == {<<a, b, c, d>> : a \in BOOLEAN, b \in BOOLEAN, c \in BOOLEAN, d \in {"all19", "used"}}
FewDynOpts == {<<FALSE, FALSE, TRUE, "used">>, <<TRUE, TRUE, FALSE, "all19">>}
SmallLit == {[syms |-> <<256>>, shape |-> "single"],
             [syms |-> <<65, 66, 256, 257>>, shape |-> "balanced"],
             [syms |-> <<256, 65, 66, 67, 257, 258, 264, 285>>, shape |-> "chain"]}
SmallDist == {[syms |-> <<>>, shape |-> "none"], [syms |-> <<0>>, shape |-> "single"],
              [syms |-> <<0, 1, 2, 29>>, shape |-> "balanced"]}
StaleLit == {[syms |-> <<65, 66, 256, 257>>, shape |-> "balanced"],
             [syms |-> <<256, 65, 66, 67, 257, 258, 264, 285>>, shape |-> "chain"]}
StaleDist == {[syms |-> <<>>, shape |-> "none"], [syms |-> <<0>>, shape |-> "single"], [syms |-> <<0, 3>>, shape |-> "balanced"]}
WideDistPlus == WideDist \cup {[syms |-> <<>>, shape |-> "none"]}
SmallLen == {<<257, 0>>, <<285, 0>>}
SmallDistC == {<<0, 0>>, <<2, 0>>}

Init == GInit /\ acc = NoAcc /\ zb = <<>>

Gen == /\ ph # "done" /\ GNext /\ UNCHANGED <<acc, zb>>

StartAcc ==
  /\ ph = "done" /\ acc = NoAcc
  /\ zb' = StreamBytes
  /\ acc' = AccInit(zl, FALSE, {}, Len(plain), FALSE, 0)
  /\ UNCHANGED gvars

RunAcc ==
  /\ acc # NoAcc /\ ~Terminal(acc)
  /\ acc' = Step(acc, zb, plain)
  /\ UNCHANGED <<gvars, zb>>

Next == Gen \/ StartAcc \/ RunAcc
Spec == Init /\ [][Next]_vars

Agree ==
  (acc # NoAcc /\ Terminal(acc)) =>
     IF expect = "done"
       THEN acc.ph = "done" /\ acc.out = Len(plain) /\ acc.endbyte = Len(zb)
       ELSE acc.ph = "rej" /\ acc.why = why

\* simulate mode: emit the finished behaviour
Rec == [z |-> zb, p |-> plain, zlib |-> zl, expect |-> expect, why |-> why,
        feats |-> SetToSeq(feats), nblk |-> nblk]
Emit ==
  (acc # NoAcc /\ Terminal(acc) /\ "GEN_OUT" \in DOMAIN IOEnv) =>
     Serialize(ToJson(Rec) \o "\n", IOEnv.GEN_OUT,
               [format |-> "TXT", charset |-> "UTF-8", openOptions |-> <<"WRITE", "CREATE", "APPEND">>]).exitValue = 0
=============================================================================
