----------------------------- MODULE DeflateGen -----------------------------
(***************************************************************************)
(* A generative grammar of RFC 1951 / RFC 1950: a nondeterministic         *)
(* *encoder of the format* (not of miniz).  Every behaviour builds one     *)
(* stream bit by bit together with the plaintext it defines, or - through  *)
(* one of the Corrupt_* actions - a stream that violates exactly one rule  *)
(* of the format, labelled with the reason.                                *)
(*                                                                         *)
(* It deliberately produces what the bundled compressor never emits:       *)
(* chain-shaped codes with 11..15-bit code words, one-symbol codes, empty  *)
(* distance codes, HLIT/HDIST at their extremes, code-length runs that     *)
(* cross the literal/distance boundary, stored blocks at every bit         *)
(* alignment, empty blocks, length 258 and distance 32768, overlapping     *)
(* copies.                                                                 *)
(*                                                                         *)
(* Uses: (1) MC_GenAcc composes it with the acceptor Rfc1951 and checks    *)
(* that both descriptions of the format agree (exhaustively at tiny        *)
(* bounds); (2) in -simulate mode each finished behaviour is written as    *)
(* one JSON line and replayed into the real decoder by the harness.        *)
(***************************************************************************)
EXTENDS Integers, Sequences, FiniteSets, TLC, SequencesExt, Rfc1951

CONSTANTS
  MaxBlocks,      \* blocks per stream
  MaxTokens,      \* literal/match tokens per block
  Lits,           \* byte values used by stored blocks
  LitChoices,     \* byte values EmitLit may draw
  AllowCorrupt,   \* enable the Corrupt_* actions
  AllowRuns,      \* enable EmitRun (long output for distance 32768)
  Sim,            \* TRUE: draw each parameter with RandomElement (for -simulate) instead of enumerating
  DynOpts,        \* allowed <<big HLIT, big HDIST, run-length coded lengths, code-length code>> tuples
  DynOnly         \* TRUE: only dynamic-Huffman blocks (biased simulation configs)

VARIABLES
  ph,       \* "start" "block" "tokens" "done"
  bits,     \* the stream so far, as a sequence of bits (LSB-first packing order)
  plain,    \* the plaintext defined so far
  zl,       \* zlib framing
  fin,      \* current block is final
  ll, dl,   \* code lengths of the current block (symbol s at index s+1)
  lcw, dcw, \* their canonical code words
  pdl, pdcw, \* distance code of the previous Huffman block (for the stale-table corruption)
  nblk, ntok,
  expect, why,    \* "done" | "rej", reason
  feats     \* set of construct names used (coverage / selection)
gvars == <<ph, bits, plain, zl, fin, ll, dl, lcw, dcw, pdl, pdcw, nblk, ntok, expect, why, feats>>

-----------------------------------------------------------------------------
LsbBits(v, n) == [i \in 1..n |-> (v \div Pow2(i-1)) % 2]
MsbBits(code, n) == [i \in 1..n |-> (code \div Pow2(n-i)) % 2]
ByteBits(b) == LsbBits(b, 8)
PadLen(n) == (8 - (n % 8)) % 8
Zeros(n) == [i \in 1..n |-> 0]

RECURSIVE CatBytes(_)
CatBytes(bs) == IF bs = <<>> THEN <<>> ELSE ByteBits(Head(bs)) \o CatBytes(Tail(bs))

\* canonical code words (RFC 1951 3.2.2) of all symbols of lens (symbol s at index s+1),
\* computed in one pass: next_code per length, then codes handed out in symbol order
AssignCodes(lens) ==
  LET cnt == [l \in 1..15 |-> Cardinality({i \in 1..Len(lens) : lens[i] = l})]
      RECURSIVE nc(_)
      nc(l) == IF l <= 1 THEN 0 ELSE 2 * (nc(l-1) + cnt[l-1])
      first == [l \in 1..15 |-> nc(l)]
      step(acc, i) ==
        LET l == lens[i]
        IN IF l = 0 THEN [acc EXCEPT !.codes = Append(@, 0)]
           ELSE [nxt |-> [acc.nxt EXCEPT ![l] = @ + 1], codes |-> Append(acc.codes, acc.nxt[l])]
  IN FoldLeft(step, [nxt |-> first, codes |-> <<>>], [i \in 1..Len(lens) |-> i]).codes
\* bits of symbol s given lens and its code-word table
SymBits(lens, cw, s) == MsbBits(cw[s+1], lens[s+1])

-----------------------------------------------------------------------------
(* The palette of code-length assignments: a list of symbols and a shape.  *)
(*   "chain"    lengths 1,2,...,m-1,m-1   (complete; longest code m-1)     *)
(*   "rchain"   the same lengths, longest first                            *)
(*   "balanced" all 2^k symbols get length k                               *)
(*   "single"   one symbol of length 1 (incomplete, allowed)               *)
(*   "none"     no symbol at all (distance code of a literal-only block)   *)

Log2(n) == CHOOSE k \in 0..8 : Pow2(k) = n

ShapeLens(m, shape) ==
  CASE shape = "chain"    -> [i \in 1..m |-> IF i < m THEN i ELSE m - 1]
    [] shape = "rchain"   -> [i \in 1..m |-> IF i = 1 THEN m - 1 ELSE m + 1 - i]
    [] shape = "balanced" -> [i \in 1..m |-> Log2(m)]
    [] shape = "single"   -> <<1>>
    [] OTHER              -> <<>>

\* lens array of size n from a symbol list and the list of their lengths
MkLensFrom(n, syms, sl) ==
  [i \in 1..n |-> LET ks == {k \in 1..Len(syms) : syms[k] = i - 1}
                  IN IF ks = {} THEN 0 ELSE sl[CHOOSE k \in ks : TRUE]]
\* lens array of size n from a symbol list and a shape
MkLens(n, syms, shape) == MkLensFrom(n, syms, ShapeLens(Len(syms), shape))

(* "counts" palettes: an arbitrary complete code given by how many symbols  *)
(* have each length 1..15 (cnts), handed to the symbols in the order of     *)
(* syms (shortest first).  These reach the extremes of a decoder's table    *)
(* construction: nearly all of the 286 literal/length symbols with 14-15    *)
(* bit codes (the largest possible overflow tree behind a 10-bit fast       *)
(* table), hundreds of codes just past the fast-table width, all 30         *)
(* distance symbols long.  Kraft equality of every cnts is an ASSUME.       *)
RECURSIVE ExpandCnts(_, _)
ExpandCnts(c, l) == IF l > Len(c) THEN <<>> ELSE [i \in 1..c[l] |-> l] \o ExpandCnts(c, l + 1)
RECURSIVE KraftUnits(_, _)
KraftUnits(c, l) == IF l > Len(c) THEN 0 ELSE c[l] * Pow2(15 - l) + KraftUnits(c, l + 1)
RECURSIVE SumSeq(_, _)
SumSeq(c, l) == IF l > Len(c) THEN 0 ELSE c[l] + SumSeq(c, l + 1)
Iota(n) == [i \in 1..n |-> i - 1]
RevSeq(s) == [i \in 1..Len(s) |-> s[Len(s) + 1 - i]]
\* symbol 256 (end of block) first, then the others ascending
EobFirst(n) == <<256>> \o [i \in 1..(n - 1) |-> IF i - 1 < 256 THEN i - 1 ELSE i]
CountsPal(name, order, n, cnts) ==
  [syms |-> CASE order = "asc" -> Iota(n) [] order = "desc" -> RevSeq(Iota(n)) [] OTHER -> EobFirst(n),
   shape |-> "counts", cnts |-> cnts, name |-> name \o "_" \o order]
PalLens(n, pal) ==
  IF pal.shape = "counts" THEN MkLensFrom(n, pal.syms, ExpandCnts(pal.cnts, 1)) ELSE MkLens(n, pal.syms, pal.shape)
PalName(pal) == IF pal.shape = "counts" THEN pal.name ELSE pal.shape \o "_" \o ToString(Len(pal.syms))

WideLitCnts == {
  \* 9 short codes, 11 of 14 bits, 266 of 15 bits: 277 symbols behind the fast table
  <<"l277", 286, <<1, 1, 1, 1, 1, 1, 0, 1, 1, 1, 0, 0, 0, 11, 266>>>>,
  \* 6 short codes, 232 of 14 bits, 48 of 15 bits
  <<"l280", 286, <<1, 1, 1, 1, 1, 1, 0, 0, 0, 0, 0, 0, 0, 232, 48>>>>,
  \* 256 codes just past the fast table (11 bits), 259 symbols
  <<"w11", 259, <<1, 1, 1, 0, 0, 0, 0, 0, 0, 0, 256, 0, 0, 0, 0>>>>,
  \* 256 codes of 12 bits, 260 symbols
  <<"w12", 260, <<1, 1, 1, 1, 0, 0, 0, 0, 0, 0, 0, 256, 0, 0, 0>>>>,
  \* all 286 symbols with 8 and 9 bits (a dynamic twin of the fixed code)
  <<"flat89", 286, <<0, 0, 0, 0, 0, 0, 0, 226, 60, 0, 0, 0, 0, 0, 0>>>>,
  \* nearly every length in use, 256 symbols, populated on both sides of the fast-table edge
  <<"edge", 286, <<1, 1, 1, 1, 0, 1, 1, 1, 1, 8, 16, 32, 32, 32, 128>>>> }
WideDistCnts == {
  <<"d45", 30, <<0, 0, 0, 2, 28, 0, 0, 0, 0, 0, 0, 0, 0, 0, 0>>>>,
  <<"dlong", 30, <<1, 1, 1, 1, 1, 1, 1, 1, 1, 1, 0, 0, 0, 12, 8>>>>,
  <<"d11", 30, <<1, 1, 1, 1, 1, 1, 1, 0, 0, 0, 16, 0, 0, 0, 0>>>> }
ASSUME \A w \in WideLitCnts \cup WideDistCnts :
          KraftUnits(w[3], 1) = 32768 /\ SumSeq(w[3], 1) <= w[2] /\ SumSeq(w[3], 1) >= 2
WideLit == {CountsPal(w[1], o, SumSeq(w[3], 1), w[3]) : w \in WideLitCnts, o \in {"asc", "desc", "eob"}}
WideDist == {CountsPal(w[1], o, SumSeq(w[3], 1), w[3]) : w \in WideDistCnts, o \in {"asc", "desc"}}

BaseLitPalette == {
  [syms |-> <<256>>, shape |-> "single"],
  [syms |-> <<65, 256>>, shape |-> "balanced"],
  [syms |-> <<65, 66, 256, 257>>, shape |-> "balanced"],
  [syms |-> <<256, 65, 66, 67, 257, 258, 264, 285>>, shape |-> "chain"],
  [syms |-> <<65, 66, 67, 68, 69, 70, 0, 255, 257, 258, 265, 269, 273, 284, 285, 256>>, shape |-> "chain"],
  [syms |-> <<65, 66, 67, 68, 69, 70, 0, 255, 257, 258, 265, 269, 273, 284, 285, 256>>, shape |-> "rchain"],
  [syms |-> <<0, 1, 2, 3, 10, 32, 65, 66, 97, 98, 99, 100, 101, 127, 128, 200, 254, 255, 256, 257, 258, 259,
              260, 261, 262, 263, 264, 268, 272, 280, 284, 285>>, shape |-> "balanced"] }
LitPalette == BaseLitPalette \cup WideLit

BaseDistPalette == {
  [syms |-> <<>>, shape |-> "none"],
  [syms |-> <<0>>, shape |-> "single"],
  [syms |-> <<5>>, shape |-> "single"],
  [syms |-> <<0, 3>>, shape |-> "balanced"],
  [syms |-> <<0, 1, 2, 29>>, shape |-> "balanced"],
  [syms |-> <<0, 1, 2, 3, 4, 8, 12, 16, 20, 24, 28, 29>>, shape |-> "chain"],
  [syms |-> <<29, 28, 24, 20, 16, 12, 8, 4, 3, 2, 1, 0>>, shape |-> "chain"] }
DistPalette == BaseDistPalette \cup WideDist

MaxSym(syms) == IF syms = <<>> THEN -1 ELSE CHOOSE s \in {syms[i] : i \in 1..Len(syms)} :
                                               \A j \in 1..Len(syms) : syms[j] <= s

-----------------------------------------------------------------------------
(* Encoding of the code-length sequence (RFC 1951 3.2.7).                  *)

\* length of the run of equal values starting at position i
RECURSIVE RunLen(_, _)
RunLen(sq, i) == IF i < Len(sq) /\ sq[i+1] = sq[i] THEN 1 + RunLen(sq, i+1) ELSE 1

\* greedy run-length encoding: sequence of <<symbol, extra value, extra bits>>
RECURSIVE RleEnc(_, _)
RleEnc(sq, i) ==
  IF i > Len(sq) THEN <<>>
  ELSE LET v == sq[i]
           r == RunLen(sq, i)
       IN IF v = 0 /\ r >= 11 THEN LET k == Min2(r, 138) IN <<<<18, k - 11, 7>>>> \o RleEnc(sq, i + k)
          ELSE IF v = 0 /\ r >= 3 THEN <<<<17, r - 3, 3>>>> \o RleEnc(sq, i + r)
          ELSE IF i > 1 /\ sq[i-1] = v /\ r >= 3
                 THEN LET k == Min2(r, 6) IN <<<<16, k - 3, 2>>>> \o RleEnc(sq, i + k)
          ELSE <<<<v, 0, 0>>>> \o RleEnc(sq, i + 1)

PlainEnc(sq) == [i \in 1..Len(sq) |-> <<sq[i], 0, 0>>]

\* a complete code over all 19 code-length symbols: 13 of length 4, 6 of length 5
ClAll19 == [i \in 1..19 |-> IF i <= 13 THEN 4 ELSE 5]

\* a complete code over only the used symbols (2..8 of them): chain shape
ClUsed(items) ==
  LET used == {items[i][1] : i \in 1..Len(items)}
      lst == SetToSortSeq(used, <)
      lst2 == IF Len(lst) = 1 THEN lst \o <<(lst[1] + 1) % 19>> ELSE lst
  IN IF Len(lst2) <= 8 THEN MkLens(19, lst2, "chain") ELSE ClAll19

DynHeaderBits(hlit, hdist, lenseq, rle, clmode) ==
  LET items == IF rle THEN RleEnc(lenseq, 1) ELSE PlainEnc(lenseq)
      cl == IF clmode = "all19" THEN ClAll19 ELSE ClUsed(items)
      clcw == AssignCodes(cl)
      lastk == CHOOSE k \in 1..19 : cl[ClOrder[k] + 1] # 0 /\ \A j \in (k+1)..19 : cl[ClOrder[j] + 1] = 0
      hclen == IF lastk < 4 THEN 4 ELSE lastk
      RECURSIVE ItemBits(_)
      ItemBits(i) == IF i > Len(items) THEN <<>>
                     ELSE SymBits(cl, clcw, items[i][1]) \o LsbBits(items[i][2], items[i][3]) \o ItemBits(i + 1)
      RECURSIVE ClBits(_)
      ClBits(k) == IF k > hclen THEN <<>> ELSE LsbBits(cl[ClOrder[k] + 1], 3) \o ClBits(k + 1)
  IN LsbBits(hlit - 257, 5) \o LsbBits(hdist - 1, 5) \o LsbBits(hclen - 4, 4) \o ClBits(1) \o ItemBits(1)

-----------------------------------------------------------------------------
FixedLitCW == AssignCodes(FixedLitLens)
FixedDistCW == AssignCodes(FixedDistLens32)

GInit ==
  /\ ph = "start" /\ bits = <<>> /\ plain = <<>> /\ zl \in BOOLEAN /\ fin = FALSE
  /\ ll = <<>> /\ dl = <<>> /\ lcw = <<>> /\ dcw = <<>> /\ pdl = <<>> /\ pdcw = <<>> /\ nblk = 0 /\ ntok = 0 /\ expect = "done" /\ why = "" /\ feats = {}

Feat(f) == feats' = feats \cup {f}
\* In -simulate mode TLC would build every successor before picking one; drawing the
\* parameters first keeps one simulation step cheap.  Exhaustive configs enumerate.
Pick(S) == IF Sim THEN {RandomElement(S)} ELSE S

Rarely(n) == ~Sim \/ RandomElement(1..n) = 1
\* simulation draws a wide ("counts") palette one time in three; an exhaustive config enumerates
\* whatever the palette constant has been overridden with
PickPal(base, wide, all) ==
  IF Sim THEN {RandomElement(IF RandomElement(1..3) = 1 /\ (all \cap wide) # {} THEN all \cap wide
                             ELSE IF (all \cap base) # {} THEN all \cap base ELSE all)}
  ELSE all

\* a valid zlib header: CM = 8, CINFO <= 7, FDICT = 0, FCHECK
Start ==
  /\ ph = "start"
  /\ IF zl
       THEN \E cinfo \in {0, 4, 7}, flevel \in {0, 2, 3} :
              LET cmf == 8 + 16 * cinfo
                  f0 == 64 * flevel
                  flg == f0 + ((31 - ((cmf * 256 + f0) % 31)) % 31)
              IN bits' = ByteBits(cmf) \o ByteBits(flg)
       ELSE bits' = <<>>
  /\ ph' = "block"
  /\ UNCHANGED <<plain, zl, fin, ll, dl, lcw, dcw, pdl, pdcw, nblk, ntok, expect, why, feats>>

HdrBits(final, type) == <<IF final THEN 1 ELSE 0>> \o LsbBits(type, 2)

CanStartBlock == ph = "block" /\ nblk < MaxBlocks
AfterBlock(final) == IF final THEN "finish" ELSE "block"

\* stored block of n bytes, at whatever bit alignment the stream has reached
BeginStored(final, data) ==
  /\ CanStartBlock /\ ~DynOnly
  /\ LET b1 == bits \o HdrBits(final, 0)
         b2 == b1 \o Zeros(PadLen(Len(b1)))
         n == Len(data)
     IN bits' = b2 \o LsbBits(n, 16) \o LsbBits(65535 - n, 16) \o CatBytes(data)
  /\ plain' = plain \o data
  /\ nblk' = nblk + 1 /\ fin' = final /\ ph' = AfterBlock(final)
  /\ Feat(IF data = <<>> THEN "stored_empty" ELSE "stored_align_" \o ToString(Len(bits) % 8))
  /\ UNCHANGED <<zl, ll, dl, lcw, dcw, pdl, pdcw, ntok, expect, why>>

BeginFixed(final) ==
  /\ CanStartBlock /\ ~DynOnly
  /\ bits' = bits \o HdrBits(final, 1)
  /\ ll' = FixedLitLens /\ dl' = FixedDistLens32 /\ lcw' = FixedLitCW /\ dcw' = FixedDistCW
  /\ pdl' = dl /\ pdcw' = dcw
  /\ nblk' = nblk + 1 /\ fin' = final /\ ntok' = 0 /\ ph' = "tokens"
  /\ Feat("fixed")
  /\ UNCHANGED <<plain, zl, expect, why>>

BeginDynamic(final, lp, dp, bighl, bighd, rle, clmode) ==
  /\ CanStartBlock
  /\ LET hlit == IF bighl THEN 286 ELSE Max2(257, MaxSym(lp.syms) + 1)
         hdist == IF bighd THEN 30 ELSE Max2(1, MaxSym(dp.syms) + 1)
         l1 == PalLens(hlit, lp)
         d1 == PalLens(hdist, dp)
     IN /\ bits' = bits \o HdrBits(final, 2) \o DynHeaderBits(hlit, hdist, l1 \o d1, rle, clmode)
        /\ ll' = l1 /\ dl' = d1 /\ lcw' = AssignCodes(l1) /\ dcw' = AssignCodes(d1)
        /\ pdl' = dl /\ pdcw' = dcw
  /\ nblk' = nblk + 1 /\ fin' = final /\ ntok' = 0 /\ ph' = "tokens"
  /\ feats' = feats \cup {"dyn_lit_" \o PalName(lp), "dyn_dist_" \o PalName(dp),
                          IF rle THEN "dyn_rle" ELSE "dyn_plain", "dyn_cl_" \o clmode}
                    \cup (IF bighl THEN {"hlit_286"} ELSE {}) \cup (IF bighd THEN {"hdist_30"} ELSE {})
  /\ UNCHANGED <<plain, zl, expect, why>>

HasSym(lens, s) == s + 1 <= Len(lens) /\ lens[s+1] > 0

EmitLit(b) ==
  /\ ph = "tokens" /\ ntok < MaxTokens /\ HasSym(ll, b)
  /\ bits' = bits \o SymBits(ll, lcw, b)
  /\ plain' = Append(plain, b)
  /\ ntok' = ntok + 1
  /\ UNCHANGED <<ph, zl, fin, ll, dl, lcw, dcw, pdl, pdcw, nblk, expect, why, feats>>

RECURSIVE CopyOut(_, _, _)
CopyOut(o, dist, k) == IF k = 0 THEN o ELSE CopyOut(Append(o, o[Len(o) + 1 - dist]), dist, k - 1)

MatchBits(ls, le, ds, de) ==
  SymBits(ll, lcw, ls) \o LsbBits(le, LenExtra[ls - 256]) \o SymBits(dl, dcw, ds) \o LsbBits(de, DistExtra[ds + 1])

EmitMatch(ls, le, ds, de) ==
  /\ ph = "tokens" /\ ntok < MaxTokens /\ HasSym(ll, ls) /\ ds <= 29 /\ HasSym(dl, ds)
  /\ le < Pow2(LenExtra[ls - 256]) /\ de < Pow2(DistExtra[ds + 1])
  /\ LET len == LenBase[ls - 256] + le
         dist == DistBase[ds + 1] + de
     IN /\ dist <= Len(plain)
        /\ bits' = bits \o MatchBits(ls, le, ds, de)
        /\ plain' = CopyOut(plain, dist, len)
        /\ feats' = feats \cup (IF len = 258 THEN {"len_258"} ELSE {})
                          \cup (IF dist = 32768 THEN {"dist_32768"} ELSE {})
                          \cup (IF dist < len THEN {"overlap"} ELSE {})
  /\ ntok' = ntok + 1
  /\ UNCHANGED <<ph, zl, fin, ll, dl, lcw, dcw, pdl, pdcw, nblk, expect, why>>

\* k maximal-length matches at distance 1 in one step (builds 32 KiB of history cheaply)
EmitRun(k) ==
  /\ AllowRuns /\ Rarely(8) /\ ph = "tokens" /\ ntok < MaxTokens /\ HasSym(ll, 285) /\ HasSym(dl, 0) /\ Len(plain) >= 1
  /\ LET RECURSIVE rb(_)
         rb(i) == IF i = 0 THEN <<>> ELSE MatchBits(285, 0, 0, 0) \o rb(i - 1)
         last == plain[Len(plain)]
     IN /\ bits' = bits \o rb(k)
        /\ plain' = plain \o [i \in 1..(258 * k) |-> last]
  /\ ntok' = ntok + 1 /\ Feat("run")
  /\ UNCHANGED <<ph, zl, fin, ll, dl, lcw, dcw, pdl, pdcw, nblk, expect, why>>

GenEndBlock ==
  /\ ph = "tokens" /\ HasSym(ll, 256) /\ (Rarely(5) \/ ntok >= MaxTokens)
  /\ bits' = bits \o SymBits(ll, lcw, 256)
  /\ ph' = AfterBlock(fin)
  /\ feats' = feats \cup (IF ntok = 0 THEN {"empty_huffman_block"} ELSE {})
  /\ UNCHANGED <<plain, zl, fin, ll, dl, lcw, dcw, pdl, pdcw, nblk, ntok, expect, why>>

AdlerOf(p) == AdlerSeq(AdlerInit, p)

Finish ==
  /\ ph = "finish"
  /\ LET b1 == bits \o Zeros(PadLen(Len(bits)))
     IN bits' = IF zl THEN b1 \o CatBytes(AdlerBytes(AdlerOf(plain))) ELSE b1
  /\ ph' = "done"
  /\ UNCHANGED <<plain, zl, fin, ll, dl, lcw, dcw, pdl, pdcw, nblk, ntok, expect, why, feats>>

-----------------------------------------------------------------------------
(* One action per way a stream can violate the format.  Each ends the      *)
(* behaviour ("done") with expect = "rej" and the acceptor's reason name;  *)
(* a few arbitrary bytes follow so that a decoder is never merely starved. *)

Junk == CatBytes(<<85, 170, 1, 254, 0, 255, 85, 170>>)
Bad(newbits, reason) ==
  /\ AllowCorrupt /\ Rarely(12) /\ expect = "done"
  /\ bits' = (newbits \o Zeros(PadLen(Len(newbits)))) \o Junk
  /\ expect' = "rej" /\ why' = reason /\ ph' = "done"
  /\ feats' = feats \cup {"corrupt_" \o reason}
  /\ UNCHANGED <<plain, zl, fin, ll, dl, lcw, dcw, pdl, pdcw, nblk, ntok>>

Corrupt_ZlibHeader ==
  /\ ph = "start" /\ zl
  /\ \E k \in {"zlib_cm", "zlib_cinfo", "zlib_fdict", "zlib_fcheck"} :
       LET cmf == IF k = "zlib_cm" THEN 9 + 16 * 7 ELSE IF k = "zlib_cinfo" THEN 8 + 16 * 8 ELSE 8 + 16 * 7
           f0 == IF k = "zlib_fdict" THEN 32 ELSE 0
           good == f0 + ((31 - ((cmf * 256 + f0) % 31)) % 31)
           flg == IF k = "zlib_fcheck" THEN ((good + 1) % 32) + ((good \div 32) * 32) ELSE good
       IN Bad(ByteBits(cmf) \o ByteBits(flg), k)

Corrupt_BlockType3 == CanStartBlock /\ Bad(bits \o HdrBits(TRUE, 3), "btype3")

Corrupt_StoredLen ==
  /\ CanStartBlock
  /\ LET b1 == bits \o HdrBits(TRUE, 0)
         b2 == b1 \o Zeros(PadLen(Len(b1)))
     IN Bad(b2 \o LsbBits(3, 16) \o LsbBits(65535 - 2, 16) \o CatBytes(<<1, 2, 3>>), "stored_len")

Corrupt_TableSizes ==
  /\ CanStartBlock
  /\ \E k \in {"hlit", "hdist"} :
       Bad(bits \o HdrBits(TRUE, 2) \o LsbBits(IF k = "hlit" THEN 30 ELSE 0, 5)
                \o LsbBits(IF k = "hdist" THEN 30 ELSE 0, 5) \o LsbBits(15, 4), k)

\* dynamic block whose literal/length (or distance, or code-length) code is over-subscribed
\* or incomplete, or whose code-length sequence is malformed
Corrupt_Lens ==
  /\ CanStartBlock
  /\ \E k \in {"lit_over", "lit_incomplete", "dist_over", "dist_incomplete", "repeat_no_prev", "len_run_overflow"} :
       LET lgood == MkLens(257, <<65, 66, 256, 100>>, "balanced")
           dgood == MkLens(2, <<0, 1>>, "balanced")
           l1 == CASE k = "lit_over" -> [lgood EXCEPT ![66] = 1]
                   [] k = "lit_incomplete" -> [lgood EXCEPT ![66] = 3]
                   [] OTHER -> lgood
           d1 == CASE k = "dist_over" -> <<1, 1, 1>>
                   [] k = "dist_incomplete" -> <<2, 2, 2>>
                   [] OTHER -> dgood
           sq == l1 \o d1
           hdr == HdrBits(TRUE, 2)
       IN CASE k = "repeat_no_prev" ->
                 \* first code-length symbol is 16 (copy previous) with nothing before it
                 Bad(bits \o hdr \o LsbBits(0, 5) \o LsbBits(0, 5) \o LsbBits(15, 4)
                          \o [i \in 1..(3 * 19) |-> IF i \in {1, 4} THEN 1 ELSE 0]
                          \o <<0, 0, 0, 0, 0>>, k)
            [] k = "len_run_overflow" ->
                 \* 257 + 1 lengths announced; an 18-run of 138 zeros three times overflows
                 LET cl == MkLens(19, <<18, 1>>, "balanced")
                     RECURSIVE ClB(_)
                     ClB(j) == IF j > 19 THEN <<>> ELSE LsbBits(cl[ClOrder[j] + 1], 3) \o ClB(j + 1)
                     run == SymBits(cl, AssignCodes(cl), 18) \o LsbBits(127, 7)
                 IN Bad(bits \o hdr \o LsbBits(0, 5) \o LsbBits(0, 5) \o LsbBits(15, 4) \o ClB(1)
                             \o run \o run, k)
            [] OTHER -> Bad(bits \o hdr \o DynHeaderBits(257, Len(d1), sq, FALSE, "all19"), k)

\* a dynamic header that is valid in every respect except that its LAST code-length item is a run
\* (17: zeros, or 16: repeat previous) reaching past HLIT + HDIST; clamped to the announced count it
\* would be a perfectly good header, and a literal and the end-of-block code follow
Corrupt_RunPastEnd ==
  /\ CanStartBlock
  /\ \E k \in {"zeros", "repeat"} :
       LET lgood == MkLens(257, <<65, 66, 256, 100>>, "balanced")
           \* zeros: two distance lengths announced, a run of three zeros written
           \* repeat: distance lengths 1,1 announced as <<1>> followed by "repeat previous x3"
           items == PlainEnc(lgood) \o (IF k = "zeros" THEN <<<<17, 0, 3>>>> ELSE <<<<1, 0, 0>>, <<16, 0, 2>>>>)
           cl == ClAll19
           clcw == AssignCodes(cl)
           RECURSIVE IB(_)
           IB(i) == IF i > Len(items) THEN <<>>
                    ELSE SymBits(cl, clcw, items[i][1]) \o LsbBits(items[i][2], items[i][3]) \o IB(i + 1)
           RECURSIVE CB(_)
           CB(j) == IF j > 19 THEN <<>> ELSE LsbBits(cl[ClOrder[j] + 1], 3) \o CB(j + 1)
           lcwg == AssignCodes(lgood)
       IN Bad(bits \o HdrBits(TRUE, 2) \o LsbBits(0, 5) \o LsbBits(1, 5) \o LsbBits(15, 4) \o CB(1) \o IB(1)
                   \o SymBits(lgood, lcwg, 65) \o SymBits(lgood, lcwg, 256), "len_run_overflow")

\* like Bad, but the stream carries on to a proper end after the offending construct (raw
\* framing only: no trailer has to be invented): a decoder that lets the construct pass finds
\* nothing else to object to
BadThenEnd(newbits, reason) ==
  /\ AllowCorrupt /\ Rarely(12) /\ expect = "done" /\ ~zl
  /\ bits' = newbits \o Zeros(PadLen(Len(newbits)))
  /\ expect' = "rej" /\ why' = reason /\ ph' = "done"
  /\ feats' = feats \cup {"corrupt_" \o reason \o "_then_valid"}
  /\ UNCHANGED <<plain, zl, fin, ll, dl, lcw, dcw, pdl, pdcw, nblk, ntok>>

\* undefined length / distance symbols of the fixed code
Corrupt_Symbol ==
  /\ ph = "tokens" /\ ll = FixedLitLens
  /\ \E k \in {"len_symbol", "dist_symbol"} :
       IF k = "len_symbol" THEN Bad(bits \o SymBits(FixedLitLens, FixedLitCW, 286), k)
       ELSE Bad(bits \o SymBits(FixedLitLens, FixedLitCW, 257) \o SymBits(FixedDistLens32, FixedDistCW, 30), k)

\* the same undefined symbols inside an otherwise complete final block: symbol 286 / 287 followed
\* by a good distance code, symbol 30 / 31 as the distance of a good length, then end of block
Corrupt_SymbolThenValid ==
  /\ ph = "tokens" /\ ll = FixedLitLens /\ fin /\ Len(plain) >= 1
  /\ \E k \in {"len_symbol", "dist_symbol"}, which \in {0, 1} :
       IF k = "len_symbol"
         THEN BadThenEnd(bits \o SymBits(FixedLitLens, FixedLitCW, 286 + which) \o SymBits(FixedDistLens32, FixedDistCW, 0)
                              \o SymBits(FixedLitLens, FixedLitCW, 256), k)
         ELSE BadThenEnd(bits \o SymBits(FixedLitLens, FixedLitCW, 257) \o SymBits(FixedDistLens32, FixedDistCW, 30 + which)
                              \o SymBits(FixedLitLens, FixedLitCW, 256), k)

\* ... and in the middle of a stream that simply carries on (more tokens, more blocks): the bad symbol
\* is then met with plenty of input left, i.e. on a decoder's fast path as well
Corrupt_SymbolThenCarryOn ==
  /\ AllowCorrupt /\ Rarely(10) /\ expect = "done" /\ ~zl
  /\ ph = "tokens" /\ ll = FixedLitLens /\ Len(plain) >= 1 /\ ntok < MaxTokens
  /\ \E k \in {"len_symbol", "dist_symbol"}, which \in {0, 1} :
       /\ bits' = IF k = "len_symbol"
                    THEN bits \o SymBits(FixedLitLens, FixedLitCW, 286 + which) \o SymBits(FixedDistLens32, FixedDistCW, 0)
                    ELSE bits \o SymBits(FixedLitLens, FixedLitCW, 257) \o SymBits(FixedDistLens32, FixedDistCW, 30 + which)
       /\ expect' = "rej" /\ why' = k
       /\ feats' = feats \cup {"corrupt_" \o k \o "_then_carry_on"}
  /\ ntok' = ntok + 1
  /\ UNCHANGED <<ph, plain, zl, fin, ll, dl, lcw, dcw, pdl, pdcw, nblk>>

\* a distance code made of one symbol whose length is 2..15 (incomplete; only a single ONE-bit code
\* is tolerated), in an otherwise complete final block with a literal and the end-of-block code
Corrupt_SingleLongDistCode ==
  /\ CanStartBlock
  /\ \E dlen \in {2, 7, 15}, dsym \in {0, 5} :
       LET lgood == MkLens(257, <<65, 66, 256, 100>>, "balanced")
           dbad == [i \in 1..(dsym + 1) |-> IF i = dsym + 1 THEN dlen ELSE 0]
           lcwg == AssignCodes(lgood)
       IN BadThenEnd(bits \o HdrBits(TRUE, 2) \o DynHeaderBits(257, dsym + 1, lgood \o dbad, FALSE, "all19")
                          \o SymBits(lgood, lcwg, 65) \o SymBits(lgood, lcwg, 256), "dist_incomplete")

\* HLIT = 30 (287 lengths) or HDIST = 30 (31 lengths) in front of otherwise complete, valid tables,
\* one literal and the end-of-block code
Corrupt_TableSizesThenValid ==
  /\ CanStartBlock
  /\ \E k \in {"hlit", "hdist"} :
       LET lgood == MkLens(IF k = "hlit" THEN 287 ELSE 257, <<65, 66, 256, 100>>, "balanced")
           dgood == MkLens(IF k = "hdist" THEN 31 ELSE 2, <<0, 1>>, "balanced")
           lcwg == AssignCodes(lgood)
       IN BadThenEnd(bits \o HdrBits(TRUE, 2) \o DynHeaderBits(Len(lgood), Len(dgood), lgood \o dgood, TRUE, "all19")
                          \o SymBits(lgood, lcwg, 65) \o SymBits(lgood, lcwg, 256), k)

\* a distance reaching before the start of the output
Corrupt_DistBeforeStart ==
  /\ ph = "tokens" /\ HasSym(ll, 257)
  /\ \E ds \in Pick(0..29) : /\ HasSym(dl, ds) /\ DistBase[ds + 1] > Len(plain)
                       /\ Bad(bits \o MatchBits(257, 0, ds, 0), "dist_before_start")

\* a code word that no symbol owns (incomplete one-symbol code)
Corrupt_UnusedCode ==
  /\ ph = "tokens" /\ Cardinality({i \in 1..Len(ll) : ll[i] > 0}) = 1
  /\ Bad(bits \o <<1, 1, 1, 1, 1, 1, 1, 1, 1, 1, 1, 1, 1, 1, 1, 1>>, "lit_badcode")

\* a block that declares no distance code at all but uses a length symbol; the bits that
\* follow are a perfectly good distance code word of the PREVIOUS block's distance code, and
\* the stream then carries on to a proper end - only the undeclared distance code is wrong
Corrupt_StaleDistCode ==
  /\ AllowCorrupt /\ Rarely(2)
  /\ ph = "tokens" /\ expect = "done" /\ HasSym(ll, 257) /\ HasSym(ll, 256)
  /\ \A i \in 1..Len(dl) : dl[i] = 0
  /\ Len(plain) >= 1
  /\ \E ds \in {0} : /\ HasSym(pdl, ds)
                       /\ bits' = bits \o SymBits(ll, lcw, 257) \o SymBits(pdl, pdcw, ds) \o SymBits(ll, lcw, 256)
  /\ expect' = "rej" /\ why' = "dist_badcode"
  /\ ph' = AfterBlock(fin)
  /\ feats' = feats \cup {"corrupt_stale_dist_code"}
  /\ plain' = CopyOut(plain, 1, 3)
  /\ UNCHANGED <<zl, fin, ll, dl, lcw, dcw, pdl, pdcw, nblk, ntok>>

Corrupt_Trailer ==
  /\ ph = "finish" /\ zl
  /\ LET b1 == bits \o Zeros(PadLen(Len(bits)))
         ad == AdlerBytes(AdlerOf(plain))
     IN /\ AllowCorrupt /\ Rarely(6) /\ expect = "done"
        /\ bits' = b1 \o CatBytes([ad EXCEPT ![4] = (@ + 1) % 256])
        /\ expect' = "rej" /\ why' = "adler" /\ ph' = "done"
        /\ Feat("corrupt_adler")
        /\ UNCHANGED <<plain, zl, fin, ll, dl, lcw, dcw, pdl, pdcw, nblk, ntok>>

-----------------------------------------------------------------------------
StoredChoices == {<<>>, <<7>>} \cup {<<a, b, a>> : a, b \in Lits}

LenChoices == {<<257, 0>>, <<258, 0>>, <<264, 0>>, <<265, 1>>, <<269, 3>>, <<273, 0>>, <<284, 30>>, <<284, 0>>, <<285, 0>>,
               <<259, 0>>, <<268, 1>>, <<280, 15>>}
DistChoices == {<<0, 0>>, <<1, 0>>, <<2, 0>>, <<3, 0>>, <<4, 1>>, <<5, 0>>, <<8, 7>>, <<12, 0>>, <<16, 127>>, <<20, 511>>,
                <<24, 0>>, <<28, 0>>, <<29, 8191>>, <<29, 0>>}

GNext ==
  \/ Start
  \/ \E f \in Pick(BOOLEAN), d \in Pick(StoredChoices) : BeginStored(f, d)
  \/ \E f \in Pick(BOOLEAN) : BeginFixed(f)
  \/ \E f \in Pick(BOOLEAN), lp \in PickPal(BaseLitPalette, WideLit, LitPalette),
        dp \in PickPal(BaseDistPalette, WideDist, DistPalette), o \in Pick(DynOpts) :
        BeginDynamic(f, lp, dp, o[1], o[2], o[3], o[4])
  \/ \E b \in Pick(LitChoices) : EmitLit(b)
  \/ \E lc \in Pick(LenChoices), dc \in Pick(DistChoices) : EmitMatch(lc[1], lc[2], dc[1], dc[2])
  \/ EmitRun(128)
  \/ GenEndBlock
  \/ Finish
  \/ Corrupt_ZlibHeader \/ Corrupt_BlockType3 \/ Corrupt_StoredLen \/ Corrupt_TableSizes \/ Corrupt_Lens \/ Corrupt_RunPastEnd
  \/ Corrupt_Symbol \/ Corrupt_SymbolThenValid \/ Corrupt_SymbolThenCarryOn \/ Corrupt_TableSizesThenValid \/ Corrupt_SingleLongDistCode \/ Corrupt_DistBeforeStart \/ Corrupt_UnusedCode \/ Corrupt_Trailer \/ Corrupt_StaleDistCode

\* the stream as bytes
RECURSIVE PackBytes(_, _)
PackBytes(b, i) ==
  IF i > Len(b) THEN <<>>
  ELSE <<b[i] + 2 * b[i+1] + 4 * b[i+2] + 8 * b[i+3] + 16 * b[i+4] + 32 * b[i+5] + 64 * b[i+6] + 128 * b[i+7]>>
       \o PackBytes(b, i + 8)
StreamBytes == PackBytes(bits \o Zeros(PadLen(Len(bits))), 1)

=============================================================================
