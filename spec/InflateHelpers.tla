---------------------------- MODULE InflateHelpers ----------------------------
(***************************************************************************)
(* decompress_to_vec_inner (inflate/mod.rs): the grow-and-retry loop of    *)
(* the to-Vec helpers, over an abstract contract-level decoder: a valid    *)
(* stream of K input bytes that defines N output bytes.  Each decode call  *)
(* fills the space it is given as far as the plaintext goes and reports    *)
(* Done, or HasMoreOutput with the space full (C08 status truthfulness).   *)
(* The limit L is the caller's max_output_size (Huge = no limit).          *)
(***************************************************************************)
EXTENDS Integers, TLC

CONSTANTS MaxN, MaxK, Huge

MinH(a, b) == IF a <= b THEN a ELSE b

VARIABLES n, k, lim,    \* true size, input length, limit (chosen initially)
          len, pos,     \* current vector length, bytes decoded so far
          st            \* "run" | "ok" | "err"
vars == <<n, k, lim, len, pos, st>>

Limits == 0..(MaxN + 1) \cup {Huge}

Init == /\ n \in 0..MaxN /\ k \in 1..MaxK /\ lim \in Limits
        /\ len = MinH(2 * k, lim) /\ pos = 0 /\ st = "run"

\* one iteration: decompress into ret[pos..len]
Step ==
  /\ st = "run"
  /\ LET w == MinH(len - pos, n - pos)
         p2 == pos + w
     IN /\ pos' = p2
        /\ IF p2 = n /\ (len - pos >= n - pos)
             THEN st' = "ok" /\ len' = p2                    \* Done: truncate to out_pos
           ELSE IF len >= lim THEN st' = "err" /\ len' = len \* HasMoreOutput at the limit
           ELSE st' = "run" /\ len' = MinH(2 * len, lim)     \* grow and retry
  /\ UNCHANGED <<n, k, lim>>

Next == Step
Spec == Init /\ [][Next]_vars /\ WF_vars(Step)

\* C08: never more than the limit; success exactly when the true size fits; on failure the
\* vector holds exactly `lim` bytes, all of them decoded plaintext
NeverOverLimit == len <= lim \/ lim = Huge
SuccessIffFits == (st = "ok" => n <= lim /\ len = n) /\ (st = "err" => n > lim /\ len = lim /\ pos = lim)
\* a stream that decodes to nothing into a zero-length vector still succeeds
Terminates == <>(st # "run")
\* the vector grows on every retry (no livelock at length 0)
Grows == [][st = "run" /\ st' = "run" => len' > len]_vars
=============================================================================
