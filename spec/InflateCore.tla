----------------------------- MODULE InflateCore -----------------------------
(***************************************************************************)
(* decompress_with_limit of miniz_oxide/src/inflate/core.rs reduced to its *)
(* input/output accounting: the bit buffer (bytes fetched vs bits used),   *)
(* look-ahead and undo_bytes, suspension when input is starved or the      *)
(* granted output region is full, the "has more output overrides needs     *)
(* more input" rule and its exception for the zlib trailer.                *)
(*                                                                         *)
(* The stream is an abstract TOKEN LAYOUT: a sequence of items             *)
(*    [bits |-> n, yield |-> y, kind |-> k]                                *)
(* k = "field"   n bits consumed at once (header fields, a symbol with its *)
(*               extra bits ...), y output bytes produced (a literal: 1, a *)
(*               match: its length, copied piecewise if space runs out)    *)
(*     "align"   skip to the next byte boundary (stored header, trailer)    *)
(*     "raw"     y stored bytes, copied byte-wise (8 bits each)            *)
(*     "trailer" 32 bits, no output (ReadAdler32: exempt from the override)*)
(* Look-ahead is over-approximated: whenever the decoder wants bits it may *)
(* fetch any number of whole bytes that are offered and fit the 64-bit     *)
(* buffer - this covers all three decoding tiers of the code.              *)
(*                                                                         *)
(* The caller is free: any chunking (including empty chunks), any output   *)
(* budget per call (including 0), with or without the has-more flag.       *)
(* TRAIL unrelated bytes follow the stream and may be offered too.         *)
(***************************************************************************)
EXTENDS Integers, Sequences, TLC

CONSTANTS Layout, TRAIL, MaxBudget, WBUF

MinC(a, b) == IF a <= b THEN a ELSE b
CeilDiv8(b) == (b + 7) \div 8

NItems == Len(Layout)

VARIABLES
  idx,        \* item being decoded (NItems + 1: stream finished)
  rem,        \* output bytes of the current item still to be written (match / raw in progress)
  fetched,    \* stream bytes moved into the bit buffer (or raw-copied) so far
  used,       \* stream bits consumed by completed fields so far
  out,        \* output bytes produced so far
  reported,   \* sum of the "consumed" counts returned so far
  st,         \* "run" | "done"
  \* call in progress
  pc, cstart, cend, room, more, wrote,
  lastexit,   \* "clean" (whole unused bytes handed back) | "starved"
  res         \* last return: [status, consumed, written]
vars == <<idx, rem, fetched, used, out, reported, st, pc, cstart, cend, room, more, wrote, lastexit, res>>

\* exact encoded length, in bits and bytes, computed from the layout
RECURSIVE BitsUpTo(_, _)
BitsUpTo(i, acc) ==
  IF i > NItems THEN acc
  ELSE LET it == Layout[i]
       IN BitsUpTo(i + 1, IF it.kind = "align" THEN 8 * CeilDiv8(acc)
                          ELSE IF it.kind = "raw" THEN acc + 8 * it.yield
                          ELSE acc + it.bits)
TotalBits == BitsUpTo(1, 0)
M == CeilDiv8(TotalBits)
RECURSIVE YieldUpTo(_)
YieldUpTo(i) == IF i > NItems THEN 0 ELSE Layout[i].yield + YieldUpTo(i + 1)
N == YieldUpTo(1)

NumBits == 8 * fetched - used

Init ==
  /\ idx = 1 /\ rem = 0 /\ fetched = 0 /\ used = 0 /\ out = 0 /\ reported = 0 /\ st = "run"
  /\ pc = "idle" /\ cstart = 0 /\ cend = 0 /\ room = 0 /\ more = FALSE /\ wrote = 0 /\ lastexit = "clean"
  /\ res = [status |-> "none", consumed |-> 0, written |-> 0]

\* the caller offers `chunk` more bytes (continuing where the last call's count ended)
Call(chunk, budget, m) ==
  /\ pc = "idle"
  /\ reported + chunk <= M + TRAIL
  /\ cstart' = reported /\ cend' = reported + chunk /\ room' = budget /\ more' = m /\ wrote' = 0
  \* bytes handed back by the previous return are offered again: the buffer position follows
  /\ fetched' = reported
  /\ pc' = "run"
  /\ UNCHANGED <<idx, rem, used, out, reported, st, lastexit, res>>

\* return from a non-starved exit: whole unused bytes in the bit buffer are handed back
Undo == MinC(NumBits \div 8, fetched - cstart)

Return(status, starved) ==
  LET consumed == IF starved THEN fetched - cstart ELSE fetched - Undo - cstart
  IN /\ res' = [status |-> status, consumed |-> consumed, written |-> wrote]
     /\ reported' = reported + consumed
     /\ lastexit' = IF starved THEN "starved" ELSE "clean"
     /\ pc' = "idle"

Keep == UNCHANGED <<cstart, cend, room, more, wrote>>

\* already finished: Done again, nothing moves
AfterDone ==
  /\ pc = "run" /\ st = "done"
  /\ Return("Done", FALSE)
  /\ UNCHANGED <<idx, rem, fetched, used, out, st>> /\ Keep

\* look-ahead: fetch k offered bytes that fit the buffer
Fetch ==
  /\ pc = "run" /\ st = "run" /\ idx <= NItems /\ rem = 0
  /\ Layout[idx].kind \in {"field", "trailer"}
  /\ NumBits < Layout[idx].bits + 32        \* the code never tops up a well-filled buffer
  /\ \E k \in 1..8 : /\ fetched + k <= cend
                     /\ NumBits + 8 * k <= WBUF
                     /\ fetched' = fetched + k
  /\ UNCHANGED <<idx, rem, used, out, reported, st, pc, lastexit, res>> /\ Keep

\* a field whose bits are all in the buffer
Field ==
  /\ pc = "run" /\ st = "run" /\ idx <= NItems /\ rem = 0
  /\ Layout[idx].kind \in {"field", "trailer"} /\ NumBits >= Layout[idx].bits
  /\ used' = used + Layout[idx].bits
  /\ IF Layout[idx].yield = 0 THEN idx' = idx + 1 /\ rem' = 0
     ELSE idx' = idx /\ rem' = Layout[idx].yield
  /\ UNCHANGED <<fetched, out, reported, st, pc, lastexit, res>> /\ Keep

\* write pending output of a match / literal, as much as the region allows
Write ==
  /\ pc = "run" /\ rem > 0 /\ Layout[idx].kind = "field" /\ room > 0
  /\ LET n == MinC(rem, room) IN
     /\ out' = out + n /\ room' = room - n /\ wrote' = wrote + n /\ rem' = rem - n
     /\ idx' = IF rem - n = 0 THEN idx + 1 ELSE idx
  /\ UNCHANGED <<fetched, used, reported, st, pc, lastexit, res, cstart, cend, more>>

\* pad_to_bytes: drop the bits up to the byte boundary (they are in the buffer by construction)
Align ==
  /\ pc = "run" /\ st = "run" /\ idx <= NItems /\ Layout[idx].kind = "align"
  /\ used' = 8 * CeilDiv8(used) /\ idx' = idx + 1
  /\ UNCHANGED <<rem, fetched, out, reported, st, pc, lastexit, res>> /\ Keep

\* stored bytes: from the buffer if it holds any, else straight from the input
RawStart ==
  /\ pc = "run" /\ st = "run" /\ idx <= NItems /\ Layout[idx].kind = "raw" /\ rem = 0
  /\ IF Layout[idx].yield = 0 THEN idx' = idx + 1 /\ rem' = 0 ELSE idx' = idx /\ rem' = Layout[idx].yield
  /\ UNCHANGED <<fetched, used, out, reported, st, pc, lastexit, res>> /\ Keep
RawCopy ==
  /\ pc = "run" /\ rem > 0 /\ Layout[idx].kind = "raw" /\ room > 0
  /\ (NumBits >= 8 \/ fetched < cend)
  /\ fetched' = IF NumBits >= 8 THEN fetched ELSE fetched + 1
  /\ used' = used + 8
  /\ out' = out + 1 /\ room' = room - 1 /\ wrote' = wrote + 1 /\ rem' = rem - 1
  /\ idx' = IF rem = 1 THEN idx + 1 ELSE idx
  /\ UNCHANGED <<reported, st, pc, lastexit, res, cstart, cend, more>>

\* end of the layout
Finish ==
  /\ pc = "run" /\ st = "run" /\ idx = NItems + 1
  /\ st' = "done"
  /\ Return("Done", FALSE)
  /\ UNCHANGED <<idx, rem, fetched, used, out>> /\ Keep

\* output region exhausted while output is pending
OutFull ==
  /\ pc = "run" /\ rem > 0 /\ room = 0
  /\ Return("HasMoreOutput", FALSE)
  /\ UNCHANGED <<idx, rem, fetched, used, out, st>> /\ Keep

\* input starved: the pending field needs more bits than are offered
Starved ==
  /\ pc = "run" /\ st = "run" /\ idx <= NItems
  /\ \/ (rem = 0 /\ Layout[idx].kind \in {"field", "trailer"} /\ NumBits < Layout[idx].bits)
     \/ (rem > 0 /\ Layout[idx].kind = "raw" /\ room > 0 /\ NumBits < 8)
  /\ fetched = cend
  /\ IF ~more THEN Return("FailedCannotMakeProgress", TRUE)
     ELSE IF room = 0 /\ Layout[idx].kind # "trailer" THEN Return("HasMoreOutput", TRUE)
     ELSE Return("NeedsMoreInput", TRUE)
  /\ UNCHANGED <<idx, rem, fetched, used, out, st>> /\ Keep

Next ==
  \/ \E c \in 0..(M + TRAIL), b \in 0..MaxBudget, m \in BOOLEAN : Call(c, b, m)
  \/ AfterDone \/ Fetch \/ Field \/ Write \/ Align \/ RawStart \/ RawCopy \/ Finish \/ OutFull \/ Starved

Spec == Init /\ [][Next]_vars

-----------------------------------------------------------------------------
(* Invariants (C05, C06, C07, C08 at the level of accounting).              *)

BitBufferSane == 0 <= NumBits /\ NumBits <= WBUF

\* a non-starved return leaves fewer than 8 bits behind: every whole byte of look-ahead was
\* handed back to the caller (so it can never be a byte beyond the end of the stream)
CleanExitKeepsNoWholeByte == (pc = "idle" /\ lastexit = "clean") => 8 * reported - used < 8

\* at a starved return every buffered bit belongs to the pending field
StarvedExitNeedsAllBits ==
  (pc = "idle" /\ lastexit = "starved" /\ idx <= NItems /\ rem = 0 /\ Layout[idx].kind \in {"field", "trailer"})
     => 8 * reported - used < Layout[idx].bits

\* counts never exceed what was offered / granted
CountsWithinOffered ==
  (pc = "idle" /\ res.status # "none") => /\ 0 <= res.consumed /\ res.consumed <= cend - cstart
                         /\ 0 <= res.written

\* C06: at Done the total reported consumption is exactly the encoded length
ExactEnd == st = "done" /\ pc = "idle" => reported = M /\ out = N

\* bytes after the stream are never consumed, at any time
NeverPastEnd == reported <= M

\* C08: has-more-output only with a full region; needs-more-input only with all input consumed
StatusTruthful ==
  pc = "idle" =>
    /\ (res.status = "HasMoreOutput" => room = 0)
    /\ (res.status = "NeedsMoreInput" => res.consumed = cend - cstart /\ more)
    /\ (res.status = "FailedCannotMakeProgress" => ~more)

=============================================================================
