----------------------------- MODULE DeflateHuff -----------------------------
(***************************************************************************)
(* The compressor's Huffman code construction: HuffmanOxide::optimize_table *)
(* of miniz_oxide/src/deflate/core.rs (radix sort by frequency, the        *)
(* in-place minimum-redundancy algorithm of Moffat and Katajainen, the     *)
(* length limiter enforce_max_code_size, canonical code assignment with    *)
(* bit reversal) and the run-length packing of the code lengths in         *)
(* start_dynamic_block.                                                    *)
(*                                                                         *)
(* The module has no variables: it defines                                 *)
(*   - HfModelSizes(counts, limit): an implementation-shaped transcription *)
(*     of the algorithm, step by step (the loops are recursive operators   *)
(*     over the same arrays and cursors as the code);                      *)
(*   - HfRules(counts, sizes, codes, limit): what any correct construction *)
(*     has to satisfy for the properties to hold (every used symbol has a  *)
(*     code, no code longer than the limit, the code is complete - or a    *)
(*     single 1-bit code -, the code words are the bit-reversed canonical  *)
(*     ones);                                                              *)
(*   - HfPack(lens, c): the transcription of the code-length run-length    *)
(*     packer, HfUnpack its inverse as RFC 1951 3.2.7 defines it, and      *)
(*     HfPackRules.                                                        *)
(* MC_DeflateHuff checks exhaustively at small alphabets / limits that the *)
(* transcription satisfies the rules (and, when the limit does not bind,   *)
(* that it is optimal); the trace specification evaluates the same rules   *)
(* on what the real code returns through the verif_huffman hook, where the *)
(* limit is an argument - so the length limiter, which real data reaches   *)
(* only with Fibonacci-like statistics over tens of thousands of symbols,  *)
(* is exercised for every small count vector.  A difference between the    *)
(* real sizes and HfModelSizes that keeps the rules is reported as DRIFT   *)
(* (the transcription is not a requirement).                               *)
(***************************************************************************)
EXTENDS Integers, Sequences, FiniteSets, SequencesExt, TLC

HfP2(k) == 2 ^ k
HfIf(c, name) == IF c THEN <<>> ELSE <<name>>

\* indices (1-based; symbol s is index s+1) of the used symbols, ascending by (count, symbol):
\* the stable radix sort of the code
HfSorted(counts) ==
  SetToSortSeq({i \in 1..Len(counts) : counts[i] > 0},
               LAMBDA a, b : counts[a] < counts[b] \/ (counts[a] = counts[b] /\ a < b))

-----------------------------------------------------------------------------
(* calculate_minimum_redundancy on A : [0..n-1 -> Nat] (frequencies, sorted *)
(* ascending), n >= 2.  Returns the array of code lengths.                  *)

RECURSIVE HfPhase1(_, _, _, _, _)
HfPhase1(A, root, leaf, next, n) ==
  IF next > n - 2 THEN A
  ELSE LET r1 == leaf >= n \/ A[root] < A[leaf]
           A1 == IF r1 THEN [A EXCEPT ![next] = A[root], ![root] = next] ELSE [A EXCEPT ![next] = A[leaf]]
           root1 == IF r1 THEN root + 1 ELSE root
           leaf1 == IF r1 THEN leaf ELSE leaf + 1
           r2 == leaf1 >= n \/ (root1 < next /\ A1[root1] < A1[leaf1])
           A2 == IF r2 THEN [A1 EXCEPT ![next] = (A1[next] + A1[root1]) % 65536, ![root1] = next]
                 ELSE [A1 EXCEPT ![next] = (A1[next] + A1[leaf1]) % 65536]
       IN HfPhase1(A2, IF r2 THEN root1 + 1 ELSE root1, IF r2 THEN leaf1 ELSE leaf1 + 1, next + 1, n)

RECURSIVE HfPhase2(_, _)
HfPhase2(A, next) == IF next < 0 THEN A ELSE HfPhase2([A EXCEPT ![next] = A[A[next]] + 1], next - 1)

\* the outer loop of phase 3 with its two inner loops unrolled into recursive helpers
RECURSIVE HfCountUsed(_, _, _, _)
HfCountUsed(A, root, dpth, used) ==
  IF root >= 0 /\ A[root] = dpth THEN HfCountUsed(A, root - 1, dpth, used + 1) ELSE <<root, used>>
RECURSIVE HfAssign(_, _, _, _, _)
HfAssign(A, next, avbl, used, dpth) ==
  IF avbl > used THEN HfAssign([A EXCEPT ![next] = dpth], next - 1, avbl - 1, used, dpth) ELSE <<A, next>>
RECURSIVE HfPhase3(_, _, _, _, _)
HfPhase3(A, avbl, dpth, root, next) ==
  IF avbl <= 0 THEN A
  ELSE LET cu == HfCountUsed(A, root, dpth, 0)
           as == HfAssign(A, next, avbl, cu[2], dpth)
       IN HfPhase3(as[1], 2 * cu[2], dpth + 1, cu[1], as[2])

HfMinRedundancy(freqs) ==   \* freqs: sequence 1..n, ascending
  LET n == Len(freqs)
  IN IF n = 0 THEN <<>>
     ELSE IF n = 1 THEN <<1>>
     ELSE LET A0 == [i \in 0..(n - 1) |-> freqs[i + 1]]
              A1 == [A0 EXCEPT ![0] = A0[0] + A0[1]]
              A2 == HfPhase1(A1, 0, 2, 1, n)
              A3 == HfPhase2([A2 EXCEPT ![n - 2] = 0], n - 3)
              A4 == HfPhase3(A3, 1, 0, n - 2, n - 1)
          IN [i \in 1..n |-> A4[i - 1]]

-----------------------------------------------------------------------------
(* enforce_max_code_size on num : [1..HfMaxDepth -> Nat]                    *)
HfMaxDepth == 40
RECURSIVE HfSumFrom(_, _)
HfSumFrom(num, i) == IF i > HfMaxDepth THEN 0 ELSE num[i] + HfSumFrom(num, i + 1)
RECURSIVE HfTotal(_, _, _)
HfTotal(num, i, max) == IF i > max THEN 0 ELSE num[i] * HfP2(max - i) + HfTotal(num, i + 1, max)
\* one iteration of the correction loop; MUT names a design mutation (teeth of the invariants)
HfFix1(num, max) ==
  LET n1 == [num EXCEPT ![max] = @ - 1]
      cands == {i \in 1..(max - 1) : n1[i] # 0}
  IN IF cands = {} THEN n1
     ELSE LET i == CHOOSE c \in cands : \A d \in cands : d <= c
          IN [n1 EXCEPT ![i] = @ - 1, ![i + 1] = @ + 2]
RECURSIVE HfFix(_, _, _)
HfFix(num, max, k) == IF k <= 0 THEN num ELSE HfFix(HfFix1(num, max), max, k - 1)
HfEnforce(num, nused, max, mut) ==
  IF nused <= 1 THEN num
  ELSE LET n1 == [i \in 1..HfMaxDepth |-> IF i = max THEN num[max] + HfSumFrom(num, max + 1)
                                          ELSE IF i > max THEN 0 ELSE num[i]]
           total == HfTotal(n1, 1, max)
           iters == total - HfP2(max) - (IF mut = "fix_one_short" THEN 1 ELSE 0)
       IN IF mut = "no_enforce" THEN n1 ELSE HfFix(n1, max, iters)

\* sizes handed out from the sorted list: the most frequent symbols (its end) get the shortest codes
RECURSIVE HfHandOut(_, _, _, _, _, _)
HfHandOut(sizes, sorted, num, i, last, limit) ==
  IF i > limit THEN sizes
  ELSE LET first == last - num[i]
       IN HfHandOut([k \in 1..Len(sizes) |->
                        IF \E j \in (first + 1)..last : sorted[j] = k THEN i ELSE sizes[k]],
                    sorted, num, i + 1, first, limit)

HfModelSizesMut(counts, limit, mut) ==
  LET sorted == HfSorted(counts)
      n == Len(sorted)
      depth == HfMinRedundancy([j \in 1..n |-> counts[sorted[j]]])
      num0 == [d \in 1..HfMaxDepth |-> Cardinality({j \in 1..n : depth[j] = d})]
      num == HfEnforce(num0, n, limit, mut)
  IN HfHandOut([k \in 1..Len(counts) |-> 0], sorted, num, 1, n, limit)
HfModelSizes(counts, limit) == HfModelSizesMut(counts, limit, "none")

\* the depths before limiting (for the optimality statement)
HfUnlimitedDepth(counts) ==
  LET sorted == HfSorted(counts)
      depth == HfMinRedundancy([j \in 1..Len(sorted) |-> counts[sorted[j]]])
  IN IF depth = <<>> THEN 0 ELSE depth[1]       \* the least frequent symbol is the deepest

-----------------------------------------------------------------------------
(* canonical code words (RFC 1951 3.2.2), most significant bit first        *)
HfCanon(sizes) ==
  LET cnt == [l \in 0..16 |-> IF l = 0 THEN 0 ELSE Cardinality({i \in 1..Len(sizes) : sizes[i] = l})]
      RECURSIVE nc(_)
      nc(l) == IF l <= 1 THEN 0 ELSE 2 * (nc(l - 1) + cnt[l - 1])
  IN [i \in 1..Len(sizes) |->
        IF sizes[i] = 0 THEN 0
        ELSE nc(sizes[i]) + Cardinality({j \in 1..(i - 1) : sizes[j] = sizes[i]})]
RECURSIVE HfRev(_, _)
HfRev(v, n) == IF n = 0 THEN 0 ELSE (v % 2) * HfP2(n - 1) + HfRev(v \div 2, n - 1)

RECURSIVE HfKraft(_, _, _)
HfKraft(sizes, i, limit) ==
  IF i > Len(sizes) THEN 0
  ELSE (IF sizes[i] > 0 /\ sizes[i] <= limit THEN HfP2(limit - sizes[i]) ELSE 0) + HfKraft(sizes, i + 1, limit)

(* What the properties need of a code built for `counts` under `limit`      *)
(* (C01/C02: every symbol that occurs can be written; C10: code-length sets *)
(* complete and within the limit; decoders rebuild the canonical code).     *)
HfRules(counts, sizes, codes, limit) ==
  LET used == {i \in 1..Len(counts) : counts[i] > 0}
      coded == {i \in 1..Len(sizes) : sizes[i] > 0}
      canon == HfCanon(sizes)
  IN   HfIf(\A i \in used : sizes[i] > 0, "huff_every_used_symbol_has_a_code")
    \o HfIf(\A i \in 1..Len(sizes) : sizes[i] <= limit, "huff_no_code_longer_than_limit")
    \o HfIf(Cardinality(coded) >= 2 => HfKraft(sizes, 1, limit) = HfP2(limit), "huff_code_is_complete")
    \o HfIf(Cardinality(coded) = 1 => \A i \in coded : sizes[i] = 1, "huff_single_symbol_gets_one_bit")
    \o HfIf(\A i \in coded : sizes[i] <= limit => codes[i] = HfRev(canon[i], sizes[i]), "huff_codes_are_bit_reversed_canonical")

\* not needed by any property, reported as a note only: unused symbols get no code, and a more
\* frequent symbol never has a longer code
HfTidy(counts, sizes) ==
  /\ \A i \in 1..Len(counts) : counts[i] = 0 => sizes[i] = 0
  /\ \A i, j \in 1..Len(counts) : counts[i] > counts[j] /\ counts[j] > 0 => sizes[i] <= sizes[j]

\* cost of the optimal prefix code: sum of the merged weights
RECURSIVE HfInsert(_, _)
HfInsert(s, w) == IF s = <<>> THEN <<w>> ELSE IF w <= s[1] THEN <<w>> \o s ELSE <<s[1]>> \o HfInsert(Tail(s), w)
RECURSIVE HfOptCost(_)
HfOptCost(s) == IF Len(s) <= 1 THEN 0 ELSE LET w == s[1] + s[2] IN w + HfOptCost(HfInsert(Tail(Tail(s)), w))
RECURSIVE HfCost(_, _, _)
HfCost(counts, sizes, i) == IF i > Len(counts) THEN 0 ELSE counts[i] * sizes[i] + HfCost(counts, sizes, i + 1)

-----------------------------------------------------------------------------
(* The run-length packing of code lengths (start_dynamic_block and struct   *)
(* Rle).  c = [rep, z17, z18]: longest "repeat previous" item, longest run  *)
(* of zeros coded with symbol 17, with symbol 18 (real: 6, 10, 138; the     *)
(* shortest run is 3 for both).  Items are <<symbol, extra>>; symbols 16,   *)
(* 17, 18 carry (run - 3), (run - 3), (run - z17 - 1).                      *)

HfFlushRep(st) ==      \* Rle::prev_code_size
  IF st.rep = 0 THEN st
  ELSE IF st.rep < 3 THEN [st EXCEPT !.out = @ \o [k \in 1..st.rep |-> <<st.prev, 0>>], !.rep = 0]
  ELSE [st EXCEPT !.out = Append(@, <<16, st.rep - 3>>), !.rep = 0]
HfFlushZ(st, c) ==     \* Rle::zero_code_size
  IF st.z = 0 THEN st
  ELSE IF st.z < 3 THEN [st EXCEPT !.out = @ \o [k \in 1..st.z |-> <<0, 0>>], !.z = 0]
  ELSE IF st.z <= c.z17 THEN [st EXCEPT !.out = Append(@, <<17, st.z - 3>>), !.z = 0]
  ELSE [st EXCEPT !.out = Append(@, <<18, st.z - c.z17 - 1>>), !.z = 0]

HfPackStep(st, v, c) ==
  LET s1 == IF v = 0
              THEN LET a == HfFlushRep(st)
                       b == [a EXCEPT !.z = @ + 1]
                   IN IF b.z = c.z18 THEN HfFlushZ(b, c) ELSE b
            ELSE LET a == HfFlushZ(st, c)
                 IN IF v # a.prev
                      THEN LET b == HfFlushRep(a) IN [b EXCEPT !.out = Append(@, <<v, 0>>)]
                      ELSE LET b == [a EXCEPT !.rep = @ + 1]
                           IN IF b.rep = c.rep THEN HfFlushRep(b) ELSE b
  IN [s1 EXCEPT !.prev = v]
RECURSIVE HfPackFrom(_, _, _, _)
HfPackFrom(st, lens, i, c) == IF i > Len(lens) THEN st ELSE HfPackFrom(HfPackStep(st, lens[i], c), lens, i + 1, c)
HfPack(lens, c) ==
  LET st == HfPackFrom([z |-> 0, rep |-> 0, prev |-> 255, out |-> <<>>], lens, 1, c)
  IN (IF st.rep # 0 THEN HfFlushRep(st) ELSE HfFlushZ(st, c)).out

\* RFC 1951 3.2.7, the decoder's reading of the items
RECURSIVE HfUnpack(_, _, _, _)
HfUnpack(items, i, acc, c) ==
  IF i > Len(items) THEN acc
  ELSE LET it == items[i]
       IN CASE it[1] <= 15 -> HfUnpack(items, i + 1, Append(acc, it[1]), c)
            [] it[1] = 16 -> HfUnpack(items, i + 1,
                                      acc \o [k \in 1..(it[2] + 3) |-> IF acc = <<>> THEN -1 ELSE acc[Len(acc)]], c)
            [] it[1] = 17 -> HfUnpack(items, i + 1, acc \o [k \in 1..(it[2] + 3) |-> 0], c)
            [] OTHER      -> HfUnpack(items, i + 1, acc \o [k \in 1..(it[2] + c.z17 + 1) |-> 0], c)

HfPackRules(lens, items, c) ==
     HfIf(HfUnpack(items, 1, <<>>, c) = lens, "pack_items_decode_to_the_code_lengths")
  \o HfIf(\A i \in 1..Len(items) :
            LET it == items[i]
            IN CASE it[1] <= 15 -> it[2] = 0
                 [] it[1] = 16 -> it[2] \in 0..(c.rep - 3) /\ i > 1
                 [] it[1] = 17 -> it[2] \in 0..(c.z17 - 3)
                 [] OTHER      -> it[2] \in 0..(c.z18 - c.z17 - 1),
          "pack_items_within_their_extra_bit_ranges")

=============================================================================
