SPECIFICATION Spec
INVARIANT Consumed
CHECK_DEADLOCK FALSE
