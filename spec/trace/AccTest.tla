------------------------------ MODULE AccTest ------------------------------
(* Development self-test of the acceptor: each record is a stream with the  *)
(* expected verdict.  Not used by checks directly; bin/selftest runs it.     *)
EXTENDS Rfc1951, Json, IOUtils

Rec == ndJsonDeserialize(IOEnv.TRACE)

VARIABLES l, acc, nfail
vars == <<l, acc, nfail>>

NoAcc == [ph |-> "none"]

Init == l = 1 /\ acc = NoAcc /\ nfail = 0

Cuts(r) == IF "cuts" \in DOMAIN r THEN {r.cuts[i] : i \in 1..Len(r.cuts)} ELSE {}

Start ==
  /\ l <= Len(Rec) /\ acc = NoAcc
  /\ acc' = AccInit(Rec[l].zlib, Rec[l].mode = "produce", Cuts(Rec[l]), Len(Rec[l].p), FALSE, 1000000)
  /\ UNCHANGED <<l, nfail>>

Run ==
  /\ acc # NoAcc /\ ~Terminal(acc)
  /\ acc' = Step(acc, Rec[l].z, Rec[l].p)
  /\ UNCHANGED <<l, nfail>>

Finish ==
  /\ acc # NoAcc /\ Terminal(acc)
  /\ LET r == Rec[l]
         ok == /\ acc.ph = r.expect
               /\ ("why" \in DOMAIN r => acc.why = r.why)
               /\ ("endbyte" \in DOMAIN r => acc.endbyte = r.endbyte)
               /\ ("out" \in DOMAIN r => acc.out = r.out)
               /\ (acc.produce /\ "p" \in DOMAIN r /\ acc.ph = "done" => acc.ob = r.p)
     IN /\ nfail' = IF ok THEN nfail ELSE nfail + 1
        /\ IF ok THEN TRUE ELSE PrintT(<<"FAIL", l, r.id, Verdict(acc)>>)
  /\ l' = l + 1 /\ acc' = NoAcc

Next == Start \/ Run \/ Finish
Spec == Init /\ [][Next]_vars

Consumed == (l = Len(Rec) + 1) => PrintT(<<"CONSUMED", Len(Rec), "FAILS", nfail>>)
=============================================================================
