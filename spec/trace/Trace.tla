------------------------------- MODULE Trace -------------------------------
(***************************************************************************)
(* Trace validation: every line of the ndjson file IOEnv.TRACE is one      *)
(* event recorded from the real code by /verif/harness (drv).  The spec is *)
(* deterministic - all fields are logged - so TLC's search is linear in    *)
(* the trace.  A `stream` event starts the RFC 1951/1950 acceptor, which   *)
(* runs as silent steps (one per grammar production) before the next line  *)
(* is consumed.                                                            *)
(*                                                                         *)
(* A rule that fails does not stop the run: it is printed as               *)
(*   <<"FAIL", property, case id, line, <<rule names>>>>                   *)
(* and counted, and validation continues with the next event so that the   *)
(* rest of the trace is still examined.  The final line                    *)
(*   <<"CONSUMED", lines, "FAILS", n, ...>>                                *)
(* is printed when every line has been consumed.                           *)
(***************************************************************************)
EXTENDS Rfc1951, DeflateParams, DeflateContract, InflateContract, Checksums, CApi, DeflateLZRules, DeflateLZBufRules, DeflateHuff, Json, IOUtils

Rec == ndJsonDeserialize(IOEnv.TRACE)

VARIABLES
  l,      \* next line
  acc,    \* acceptor state (NoAcc when no stream has been parsed in this case)
  cs,     \* line of the current stream event
  ip,     \* line of the current input event (plaintext shared by several streams)
  cid,    \* line of the current case event
  dc,     \* compressor-side contract state
  ds,     \* low-level decoder objects: id -> InflateContract!DInit-shaped record
  ss,     \* streaming inflate objects: id -> SInit-shaped record
  cc,     \* C stream: running checksum <<hi, lo>> of consumed input (deflate) / output (inflate)
  nfail, nrules, seen

vars == <<l, acc, cs, ip, cid, dc, ds, ss, cc, nfail, nrules, seen>>

Objs == 1..12
DS0 == [o \in Objs |-> DInit]
SS0 == [o \in Objs |-> SInit]

NoAcc == [ph |-> "none"]

Init == /\ l = 1 /\ acc = NoAcc /\ cs = 0 /\ ip = 0 /\ cid = 0 /\ dc = CInit
        /\ ds = DS0 /\ ss = SS0 /\ cc = <<0, 1>>
        /\ nfail = 0 /\ nrules = 0 /\ seen = {}

E == Rec[l]
Is(name) == l <= Len(Rec) /\ E.ev = name /\ (acc = NoAcc \/ Terminal(acc))
Prop == IF cid = 0 THEN "none" ELSE Rec[cid].prop
CaseId == IF cid = 0 THEN "none" ELSE Rec[cid].id

\* plaintext of a stream event: its own `p`, or the case's input event
PlainOf(i) == IF HasF(Rec[i], "p") THEN Rec[i].p ELSE Rec[ip].p
PlenOf(i) == IF HasF(Rec[i], "plen") THEN Rec[i].plen
             ELSE IF Rec[i].mode = "produce" THEN 0 ELSE Len(PlainOf(i))
CutsOf(r) == IF HasF(r, "cuts") THEN {r.cuts[i] : i \in 1..Len(r.cuts)} ELSE {}

\* fails: sequence of failed rule names
Report(fails, n) ==
  /\ nfail' = nfail + Len(fails)
  /\ nrules' = nrules + n
  /\ IF fails = <<>> THEN TRUE ELSE PrintT(<<"FAIL", Prop, CaseId, l, fails>>)

Keep(vs) == UNCHANGED vs

-----------------------------------------------------------------------------
EvCase ==
  /\ Is("case")
  /\ cid' = l /\ l' = l + 1 /\ acc' = NoAcc /\ cs' = 0 /\ ip' = 0 /\ dc' = CInit
  /\ ds' = DS0 /\ ss' = SS0 /\ cc' = <<0, 1>>
  /\ Keep(<<nfail, nrules, seen>>)

EvInput ==
  /\ Is("input")
  /\ ip' = l /\ l' = l + 1
  /\ Keep(<<acc, cs, cid, dc, ds, ss, cc, nfail, nrules, seen>>)

\* a stream event: initialise the acceptor; the line is consumed when it terminates
EvStream ==
  /\ Is("stream") /\ cs # l
  /\ cs' = l
  /\ acc' = AccInit(E.zlib, E.mode = "produce", CutsOf(E), PlenOf(l),
                      HasF(E, "ignore_adler") /\ E.ignore_adler,
                      IF HasF(E, "cap") THEN E.cap ELSE 20000)
  /\ Keep(<<l, ip, cid, dc, ds, ss, cc, nfail, nrules, seen>>)

AccRun ==
  /\ acc # NoAcc /\ ~Terminal(acc)
  /\ acc' = Step(acc, Rec[cs].z, PlainOf(cs))
  /\ seen' = seen \cup {acc'.lastwhat}
  /\ Keep(<<l, cs, ip, cid, dc, ds, ss, cc, nfail, nrules>>)

EvStreamDone ==
  /\ l <= Len(Rec) /\ E.ev = "stream" /\ cs = l /\ Terminal(acc)
  /\ l' = l + 1
  /\ Keep(<<acc, cs, ip, cid, dc, ds, ss, cc, nfail, nrules, seen>>)

-----------------------------------------------------------------------------
(* compressor output judged against the configuration (C01 C02 C09 C10 C11 *)
(* C12 C14)                                                                 *)

EffCfg(cfg) ==
  IF cfg.api = "vec" THEN OneShot(cfg.zlib, cfg.level)
  ELSE IF cfg.api = "params" THEN WithParams(cfg.zlib, cfg.level, cfg.strategy, cfg.wbits)
  ELSE FromFlagsApi(cfg.zlib, cfg.level, cfg.strategy)

EvCompressed ==
  /\ Is("compressed")
  /\ LET cfg == E.cfg
         m == EffCfg(cfg)
         z == Rec[cs].z
         valid == acc.ph = "done"
         hdr == <<acc.cmf, acc.flg>>
         fails ==
              If(cs # 0 /\ valid, "output_is_a_valid_stream_decoding_to_input")
           \o If(valid => acc.endbyte = Len(z), "output_is_exactly_one_stream")
           \o If(valid /\ Prop \in {"C10", "C02", "C01"} =>
                   /\ acc.maxstored <= 65535 /\ acc.maxcodelen <= 15
                   /\ (acc.nmatch > 0 => acc.minlen >= 3 /\ acc.maxlen <= 258 /\ acc.maxdist <= 32768)
                   /\ Len(SelectSeq(acc.blocks, LAMBDA b : b.fin)) = 1,
                 "format_limits")
           \o If(valid /\ Prop = "C10" /\ ~HasF(E, "releveled") /\ ReqOnlyStored(m.elevel) => acc.btypes \subseteq {0},
                 "level0_only_stored_blocks")
           \o If(valid /\ Prop = "C10" /\ ReqNoDynamic(m.elevel, m.estrategy) => 2 \notin acc.btypes,
                 "fixed_strategy_no_dynamic_blocks")
           \o If(valid /\ Prop = "C10" /\ ReqNoMatches(m.elevel, m.estrategy) => acc.nmatch = 0,
                 "huffman_only_no_matches")
           \o If(valid /\ Prop = "C10" /\ ReqOnlyDist1(m.elevel, m.estrategy) => ~acc.nonrle,
                 "rle_only_distance_1")
           \o If(valid /\ Prop = "C10" /\ ReqMinLen5(m.elevel, m.estrategy) => acc.minlen >= 5,
                 "filtered_no_match_shorter_than_5")
           \o If(valid /\ Prop = "C10" /\ HasF(E, "redundant") /\ ReqMatching(m.elevel, m.estrategy) =>
                   4 * Len(z) < 3 * E.in_len,
                 "redundancy_exploited")
           \o If(valid /\ acc.zlib /\ cfg.wbits \in 8..15 /\ Prop \in {"C11", "C09"} =>
                   DeclaredWindow(hdr) <= 2 ^ MaxI(cfg.wbits, 8),
                 "declared_window_le_requested")
           \o If(valid /\ acc.zlib /\ cfg.wbits \in 8..15 /\ Prop = "C11" =>
                   acc.maxdist <= DeclaredWindow(hdr),
                 "distance_le_declared_window")
           \o If(valid /\ Prop = "C12" => ~acc.crosscut, "no_match_across_full_flush")
           \o If(cfg.zlib = (Rec[cs].zlib), "zlib_framing_as_requested")
           \* the logged calls account for every byte of the stream that was judged
           \o If(HasF(E, "streamed") => dc.tout = Len(z) /\ dc.tin = E.in_len, "calls_account_for_all_input_and_output")
     IN /\ Report(fails, 15)
        /\ IF HasF(cfg, "flags") /\ cfg.flags # m.flags
             THEN PrintT(<<"DRIFT", "flags", CaseId, cfg.flags, m.flags>>) ELSE TRUE
  /\ l' = l + 1
  /\ Keep(<<acc, cs, ip, cid, dc, ds, ss, cc, seen>>)

\* the crate's own decoder on the compressor's output (C01)
EvRoundtrip ==
  /\ Is("roundtrip")
  /\ LET d == E.dec
         p == PlainOf(cs)
         n == PlenOf(cs)
         fails ==
              If(d.status = "Ok", "roundtrip_decodes")
           \o If(d.status = "Ok" => d.len = n, "roundtrip_length")
           \o If(d.status = "Ok" /\ d.len = n =>
                   d.adler = AdlerSeq(AdlerInit, SubSeq(p, 1, n)), "roundtrip_bytes")
     IN Report(fails, 3)
  /\ l' = l + 1
  /\ Keep(<<acc, cs, ip, cid, dc, ds, ss, cc, seen>>)

\* a panic, hang or crash in the code under test is never allowed
EvBad ==
  /\ l <= Len(Rec) /\ E.ev \in {"panic", "hang", "crash"} /\ (acc = NoAcc \/ Terminal(acc))
  /\ Report(<<E.ev \o "_in_" \o E.where>>, 1)
  /\ l' = l + 1
  /\ Keep(<<acc, cs, ip, cid, dc, ds, ss, cc, seen>>)

-----------------------------------------------------------------------------
(* low-level compress calls (C02, C12, C16)                                 *)

EvCompNew ==
  /\ Is("comp_new")
  /\ dc' = CInit
  /\ l' = l + 1
  /\ Keep(<<acc, cs, ip, cid, ds, ss, cc, nfail, nrules, seen>>)

Adl(c) == c.adler

EvComp ==
  /\ Is("comp")
  /\ LET e == E
         okc == e.consumed <= e.in_len
         newad == IF okc /\ ip # 0
                    THEN AdlerSeq(Adl(dc), SubSeq(Rec[ip].p, dc.tin + 1, dc.tin + e.consumed))
                    ELSE Adl(dc)
         fails == CompRules(dc, e)
               \o If(okc /\ ip # 0 /\ HasF(e, "adler") /\ HasF(e, "zlib") /\ e.zlib =>
                       e.adler = newad, "compressor_adler_is_adler_of_consumed_input")
               \* the match finder's state read through the hook, judged by the rules of DeflateLZ.tla
               \o (IF HasF(e, "lz") THEN StateRules(e.lz, 32768, e.lz.lamax) \o LzBufRule(e.lz, 65536) ELSE <<>>)
     IN /\ Report(fails, IF HasF(e, "lz") THEN 16 ELSE 6)
        /\ dc' = [CompNext(dc, e) EXCEPT !.adler = newad]
  /\ l' = l + 1
  /\ Keep(<<acc, cs, ip, cid, ds, ss, cc, seen>>)

\* a qualifying flush return: the stream event before it parsed the output so far
EvFlushpoint ==
  /\ Is("flushpoint")
  /\ LET e == E
         nb == Len(acc.blocks)
         last == acc.blocks[nb]
         alldec == acc.ph = "starved" /\ acc.out = e.in_total
         fails ==
              If(e.flush \in {"Partial", "Sync", "Full", "PartialOpt", "SyncOpt"} => alldec,
                 "flush_makes_all_input_decodable")
           \o If(e.flush \in {"Sync", "Full"} /\ alldec =>
                   /\ nb > 0 /\ last.type = 0 /\ last.outstart = last.outend
                   /\ last.endbit = 8 * Len(Rec[cs].z),
                 "sync_flush_ends_with_empty_stored_block_on_byte_boundary")
     IN Report(fails, 2)
  /\ l' = l + 1
  /\ Keep(<<acc, cs, ip, cid, dc, ds, ss, cc, seen>>)

-----------------------------------------------------------------------------
(* deflate() wrapper calls (C14)                                            *)

EvDefl ==
  /\ Is("defl")
  /\ Report(DeflRules(dc, E) \o (IF HasF(E, "lz") THEN StateRules(E.lz, 32768, E.lz.lamax) \o LzBufRule(E.lz, 65536) ELSE <<>>),
            IF HasF(E, "lz") THEN 17 ELSE 9)
  /\ dc' = DeflNext(dc, E)
  /\ l' = l + 1
  /\ Keep(<<acc, cs, ip, cid, ds, ss, cc, seen>>)

EvDeflEnd ==
  /\ Is("defl_end")
  /\ LET e == E
         fails == If(~e.misuse => e.ended /\ dc.ended, "driver_loop_reaches_stream_end")
     IN Report(fails, 1)
  /\ l' = l + 1
  /\ Keep(<<acc, cs, ip, cid, dc, ds, ss, cc, seen>>)


-----------------------------------------------------------------------------
(* decoder side (C03 C04 C05 C06 C07 C08 C13)                               *)

\* what the acceptor established about the current stream
K == IF cs = 0 \/ acc = NoAcc
       THEN [v |-> "unknown", why |-> "", plen |-> 0, endbyte |-> 0, prefix |-> FALSE]
     ELSE [v |-> IF acc.ph \in {"done", "rej", "starved"} THEN acc.ph ELSE "unknown",
           why |-> acc.why, plen |-> acc.out, endbyte |-> acc.endbyte,
           prefix |-> acc.ph = "starved" /\ HasF(Rec[cs], "prefix") /\ Rec[cs].prefix]

\* plaintext byte sequence the acceptor vouches for (Verify: given; Produce: produced)
PlainK == IF acc.produce THEN acc.ob ELSE PlainOf(cs)

\* do the `n` bytes `data` continue the plaintext after `have` bytes?
OkData(have, n, data) ==
  IF K.v # "done" THEN TRUE
  ELSE /\ have + n <= K.plen
       /\ Len(data) = n
       /\ (n = 0 \/ data = SubSeq(PlainK, have + 1, have + n))

EvDNew ==
  /\ Is("dnew")
  /\ ds' = [ds EXCEPT ![E.obj] = DInit]
  /\ l' = l + 1
  /\ Keep(<<acc, cs, ip, cid, dc, ss, cc, nfail, nrules, seen>>)

EvDec ==
  /\ Is("dec")
  /\ LET e == E
         d == ds[e.obj]
         fails == DecRules(d, e, K, OkData(d.cout, e.written, e.data))
               \* all plaintext written and all deflate data consumed: only the zlib trailer is
               \* missing, which needs no output space
               \o Iff("dec_no_has_more_output_when_only_trailer_missing",
                      K.v = "done" /\ acc.zlib /\ ~BadGeometry(e) /\ d.cout + e.written = K.plen
                        /\ d.cin + e.consumed >= K.endbyte - 4 /\ e.consumed = e.in_len
                      => e.status # "HasMoreOutput")
               \* C16: the checksum the decoder exposes is the Adler-32 of all output produced so far
               \o Iff("decoder_adler_is_adler_of_output_so_far",
                      K.v = "done" /\ HasF(e, "adler") /\ e.flags % 2 = 1 /\ (e.flags \div 64) % 2 = 0
                        /\ e.status \in {"Done", "NeedsMoreInput", "HasMoreOutput", "FailedCannotMakeProgress"}
                      => e.adler = AdlerSeq(d.dig, e.data))
     IN /\ Report(fails, 19)
        /\ ds' = [ds EXCEPT ![e.obj] = DecNext(d, e, AdlerSeq(d.dig, e.data))]
  /\ l' = l + 1
  /\ Keep(<<acc, cs, ip, cid, dc, ss, cc, seen>>)

\* the driver loop of the harness ended: a valid, completely supplied stream with enough
\* output space must have finished (C03); drivers never spin without progress (C05/C08)
EvDecEnd ==
  /\ Is("dec_end")
  /\ LET e == E
         d == ds[e.obj]
         fails ==
              Iff("valid_stream_decodes_to_done", K.v = "done" /\ e.complete => d.done /\ ~d.failed)
           \o Iff("driver_loop_makes_progress", ~e.spun)
           \o Iff("invalid_stream_never_done", K.v \in {"rej", "starved"} /\ ~(K.why = "dist_before_start" /\ e.wrap) => ~d.done)
     IN Report(fails, 3)
  /\ l' = l + 1
  /\ Keep(<<acc, cs, ip, cid, dc, ds, ss, cc, seen>>)

\* a stream generated from spec/DeflateGen.tla carries the generator's own verdict: the two
\* descriptions of the format must agree on it (guards the oracle itself)
EvGenExpect ==
  /\ Is("gen_expect")
  /\ Report(Iff("generator_and_acceptor_agree",
                IF E.expect = "done" THEN acc.ph = "done" /\ acc.endbyte = Len(Rec[cs].z)
                ELSE acc.ph = "rej" /\ acc.why = E.why), 1)
  /\ l' = l + 1
  /\ Keep(<<acc, cs, ip, cid, dc, ds, ss, cc, seen>>)

\* C09: one of the 65536 two-byte zlib headers in front of a valid body, decoded with a flat
\* buffer and with a ring of each size; the verdict is a function of the header alone
ZHdrValid(cmf, flg) == /\ cmf % 16 = 8 /\ cmf \div 16 <= 7 /\ (flg \div 32) % 2 = 0 /\ (cmf * 256 + flg) % 31 = 0
EvZHdr ==
  /\ Is("zhdr")
  /\ LET e == E
         ok == ZHdrValid(e.cmf, e.flg)
         win == Pow2((e.cmf \div 16) + 8)
         fails ==
              Iff("zlib_header_accepted_iff_valid", (e.flat = "Done") = ok /\ (~ok => e.flat = "Failed"))
           \* ignoring the checksum (the Adler-32 trailer) does not relax any rule on the header
           \o Iff("zlib_header_rules_hold_when_the_checksum_is_ignored",
                  HasF(e, "flat_ign") => (e.flat_ign = "Done") = ok /\ (~ok => e.flat_ign = "Failed"))
           \o Iff("ring_smaller_than_declared_window_refused",
                  \A i \in 1..Len(e.rings) :
                     (e.rings[i][2] = "Done") = (ok /\ win <= e.rings[i][1]) /\ e.rings[i][2] \in {"Done", "Failed"})
     IN Report(fails, 2)
  /\ l' = l + 1
  /\ Keep(<<acc, cs, ip, cid, dc, ds, ss, cc, seen>>)

\* C05: a parameter error leaves the decoder state untouched (serialised state compared)
EvStateSame ==
  /\ Is("state_same")
  /\ Report(Iff("bad_param_leaves_state_untouched", E.same), 1)
  /\ l' = l + 1
  /\ Keep(<<acc, cs, ip, cid, dc, ds, ss, cc, seen>>)

\* C07 / C18 / C19: two runs over the same stream must agree
EvEquiv ==
  /\ Is("equiv")
  /\ LET a == ds[E.a]
         b == ds[E.b]
         cls(x) == IF x.done /\ ~x.failed THEN "done" ELSE IF x.failed THEN "failed" ELSE x.last
         fails ==
              Iff("equiv_same_output", a.cout = b.cout /\ a.dig = b.dig)
           \o Iff("equiv_same_verdict", cls(a) = cls(b))
           \o Iff("equiv_same_consumed", a.cin = b.cin)
     IN Report(fails, 3)
  /\ l' = l + 1
  /\ Keep(<<acc, cs, ip, cid, dc, ds, ss, cc, seen>>)

\* one-shot vector functions (C03, C08)
EvVec ==
  /\ Is("vec")
  /\ LET e == E
         fits == e.limit < 0 \/ K.plen <= e.limit
         fails ==
              Iff("vec_never_exceeds_limit", e.limit >= 0 => e.len <= e.limit)
           \o Iff("vec_valid_stream_within_limit_succeeds",
                  K.v = "done" /\ fits => e.status = "Ok" /\ e.len = K.plen /\ e.data = SubSeq(PlainK, 1, K.plen))
           \o Iff("vec_over_limit_fails_with_decoded_prefix",
                  K.v = "done" /\ ~fits =>
                     e.status = "HasMoreOutput" /\ e.len = e.limit /\ e.data = SubSeq(PlainK, 1, e.limit))
           \o Iff("vec_invalid_stream_not_ok", K.v \in {"rej", "starved"} => e.status # "Ok")
     IN Report(fails, 4)
  /\ l' = l + 1
  /\ Keep(<<acc, cs, ip, cid, dc, ds, ss, cc, seen>>)

\* decompress_slice_iter_to_slice (C03)
EvSliceIter ==
  /\ Is("sliceiter")
  /\ LET e == E
         \* several slices need one spare output byte (a full buffer with starved input reads as
         \* "has more output") - except when only the zlib trailer is missing
         room == e.out_len >= K.plen + (IF e.nslices > 1 /\ ~(HasF(e, "trailer_cut") /\ e.trailer_cut) THEN 1 ELSE 0)
         fails ==
              Iff("sliceiter_valid_stream_decodes",
                  K.v = "done" /\ room /\ e.whole =>
                     e.status = "Ok" /\ e.n = K.plen /\ e.data = SubSeq(PlainK, 1, K.plen))
           \o Iff("sliceiter_invalid_stream_not_ok", K.v \in {"rej", "starved"} => e.status # "Ok")
           \o Iff("sliceiter_count_within_buffer", e.status = "Ok" => e.n <= e.out_len)
     IN Report(fails, 3)
  /\ l' = l + 1
  /\ Keep(<<acc, cs, ip, cid, dc, ds, ss, cc, seen>>)

\* streaming inflate wrapper (C13)
EvInfNew ==
  /\ Is("inf_new")
  /\ ss' = [ss EXCEPT ![E.obj] = SInit]
  /\ l' = l + 1
  /\ Keep(<<acc, cs, ip, cid, dc, ds, cc, nfail, nrules, seen>>)

EvInf ==
  /\ Is("inf")
  /\ LET e == E
         s == ss[e.obj]
         fails == InfRules(s, e, K, OkData(s.tout, e.written, e.data))
     IN /\ Report(fails, 13)
        /\ ss' = [ss EXCEPT ![e.obj] = InfNext(s, e, AdlerSeq(s.dig, e.data))]
  /\ l' = l + 1
  /\ Keep(<<acc, cs, ip, cid, dc, ds, cc, seen>>)

EvInfEnd ==
  /\ Is("inf_end")
  /\ LET e == E
         s == ss[e.obj]
         fails ==
              Iff("inflate_driver_loop_terminates_with_plaintext",
                  K.v = "done" /\ e.canonical => s.ended /\ s.tout = K.plen /\ s.tin = K.endbyte)
           \o Iff("inflate_driver_loop_terminates", ~e.spun)
           \o Iff("inflate_invalid_stream_ends_in_error",
                  K.v \in {"rej", "starved"} /\ K.why # "dist_before_start" => ~s.ended)
     IN Report(fails, 3)
  /\ l' = l + 1
  /\ Keep(<<acc, cs, ip, cid, dc, ds, ss, cc, seen>>)

EvEquivS ==
  /\ Is("equiv_s")
  /\ LET a == ss[E.a]
         b == ss[E.b]
         \* on an invalid stream the wrapper drops the output still pending in its window
         \* when the error is reported, so only the verdict is schedule-independent there
         fails ==
              Iff("equiv_same_output", K.v = "done" => a.tout = b.tout /\ a.dig = b.dig)
           \o Iff("equiv_same_verdict", a.ended = b.ended /\ a.dataerr = b.dataerr)
           \o Iff("equiv_same_consumed", K.v = "done" => a.tin = b.tin)
     IN Report(fails, 3)
  /\ l' = l + 1
  /\ Keep(<<acc, cs, ip, cid, dc, ds, ss, cc, seen>>)

-----------------------------------------------------------------------------
(* checksums (C16): every call is recomputed from the definition           *)
EvCksum ==
  /\ Is("cksum")
  /\ LET e == E
         want == IF e.isnull THEN (IF e.fn = "adler" THEN <<0, 1>> ELSE <<0, 0>>)
                 ELSE IF e.fn = "adler" THEN AdlerUpdate(e.start, e.data)
                 ELSE CrcUpdate(e.start, e.data)
     IN Report(Iff(IF e.fn = "adler" THEN "adler32_equals_definition" ELSE "crc32_equals_definition",
                   e.result = want), 1)
  /\ l' = l + 1
  /\ Keep(<<acc, cs, ip, cid, dc, ds, ss, cc, seen>>)

-----------------------------------------------------------------------------
(* C ABI shim (C17) and the compression bound (C15)                         *)

EvCInit ==
  /\ Is("c_init")
  /\ Report(InitRules(E), 3)
  /\ cc' = <<0, 1>>
  /\ l' = l + 1
  /\ Keep(<<acc, cs, ip, cid, dc, ds, ss, seen>>)

\* does `field` equal the Adler-32 of PlainK[1..k] for some k in have..lim, given acc = Adler-32 of PlainK[1..have]?
RECURSIVE AdlerOfSomePrefix(_, _, _, _)
AdlerOfSomePrefix(sum, have, lim, field) ==
  IF sum = field THEN TRUE
  ELSE IF have >= lim THEN FALSE
  ELSE AdlerOfSomePrefix(AdlerStep(sum, PlainK[have + 1]), have + 1, lim, field)

EvCCall ==
  /\ Is("c_call")
  /\ LET e == E
         isdef == e.fn = "mz_deflate"
         newcc == IF isdef THEN AdlerUpdate(cc, e.in_data) ELSE AdlerUpdate(cc, e.data)
         \* inflate: the field is the checksum of what the decoder has produced into its
         \* window, which runs ahead of what has been delivered; the two coincide at stream end
         chk == IF isdef THEN e.ret \in {0, 1, -5} ELSE e.zlib /\ e.ret = 1
         \* C06 through the C API: at stream end the totals show exactly the encoded length
         exact == ~isdef /\ e.ret = 1 /\ cs # 0 /\ K.v = "done" =>
                     e.after.total_in = K.endbyte /\ e.after.total_out = K.plen
         \* C16: the adler field of an inflate stream is the checksum of the output *produced* so far, which
         \* may run ahead of what has been delivered (by at most the 32 KiB window) - also after a call
         \* that returned an error code having made progress
         \* (before the two header bytes have been consumed the decoder exposes no checksum at all:
         \* DecompressorOxide::adler32() is None and the field reads 0)
         ahead == ~isdef /\ e.zlib /\ cs # 0 /\ K.v = "done" /\ ~acc.produce /\ e.ret \in {0, 1, -5}
                    /\ e.after.total_in >= 2
                    /\ e.after.total_out <= K.plen /\ (e.ret # 0 \/ K.plen - e.after.total_out <= 3000)
                  => AdlerOfSomePrefix(newcc, e.after.total_out, K.plen, e.after.adler)
     IN /\ Report(CallRules(e, newcc, chk) \o CIff("c_stream_end_totals_are_exact", exact)
                  \o CIff("c_inflate_adler_field_is_checksum_of_output_produced", ahead), 7)
        /\ cc' = newcc
  /\ l' = l + 1
  /\ Keep(<<acc, cs, ip, cid, dc, ds, ss, seen>>)

EvCReset ==
  /\ Is("c_reset")
  /\ Report(CIff("c_reset_ok_and_totals_zero", E.ret = 0 /\ E.after.total_in = 0 /\ E.after.total_out = 0), 1)
  /\ cc' = <<0, 1>>
  /\ l' = l + 1
  /\ Keep(<<acc, cs, ip, cid, dc, ds, ss, seen>>)

EvCEnd ==
  /\ Is("c_end")
  /\ Report(CIff("c_end_ok_and_state_released", E.ret = 0 /\ ~E.after.has_state), 1)
  /\ l' = l + 1
  /\ Keep(<<acc, cs, ip, cid, dc, ds, ss, cc, seen>>)

EvCMisuse ==
  /\ Is("c_misuse")
  /\ Report(CIff("c_misuse_returns_error_code", E.ret < 0), 1)
  /\ l' = l + 1
  /\ Keep(<<acc, cs, ip, cid, dc, ds, ss, cc, seen>>)

\* a call the stream has to refuse, made in the middle of a stream: error code, and the
\* pointers / counters of the stream do not move (the calls after it are twin-checked as usual)
EvCMisuseMid ==
  /\ Is("c_misuse_mid")
  /\ LET b == E.before
         a == E.after
     IN Report(CIff("c_misuse_returns_error_code", E.ret < 0)
               \o CIff("c_refused_call_moves_no_pointer_or_counter",
                       /\ a.avail_in = b.avail_in /\ a.avail_out = b.avail_out /\ a.in_off = b.in_off /\ a.out_off = b.out_off
                       /\ a.total_in = b.total_in /\ a.total_out = b.total_out), 2)
  /\ l' = l + 1
  /\ Keep(<<acc, cs, ip, cid, dc, ds, ss, cc, seen>>)

EvCCompress ==
  /\ Is("c_compress")
  /\ LET e == E
         want == IF e.twin_ret = 1 THEN 0 ELSE IF e.twin_ret = 0 THEN MZ_BUF_ERROR ELSE e.twin_ret
         fails ==
              CIff("c_compress_same_status_as_rust", e.ret = want)
           \o CIff("c_compress_same_bytes_as_rust", e.ret = 0 => e.data = e.twin_data /\ e.dest_len = Len(e.data))
           \o CIff("c_compress_never_fails_with_bound_sized_destination", e.dest_cap >= e.bound => e.ret = 0)
           \o CIff("c_bound_function_value", e.bound = Bound(e.in_len))
     IN Report(fails, 4)
  /\ l' = l + 1
  /\ Keep(<<acc, cs, ip, cid, dc, ds, ss, cc, seen>>)

EvCCompressedValid ==
  /\ Is("c_compressed_valid")
  /\ Report(CIff("c_output_is_valid_stream_decoding_to_input",
                 acc.ph = "done" /\ acc.endbyte = Len(Rec[cs].z)), 1)
  /\ l' = l + 1
  /\ Keep(<<acc, cs, ip, cid, dc, ds, ss, cc, seen>>)

PIn == Rec[ip].p

EvCUncompress ==
  /\ Is("c_uncompress")
  /\ LET e == E
         n == Len(PIn)
         fails ==
              CIff("c_uncompress_fits", e.cap >= n => e.ret = 0 /\ e.dest_len = n /\ e.data = PIn)
           \o CIff("c_uncompress_too_small_is_error", e.cap < n => e.ret < 0)
     IN Report(fails, 2)
  /\ l' = l + 1
  /\ Keep(<<acc, cs, ip, cid, dc, ds, ss, cc, seen>>)

EvCMemToMem ==
  /\ Is("c_mem_to_mem")
  /\ LET e == E
         n == Len(PIn)
         fails ==
           IF e.dir = "inflate"
             THEN CIff("c_tinfl_mem_to_mem", IF e.cap >= n THEN e.ret = n /\ e.data = PIn ELSE e.ret = -1)
             ELSE CIff("c_tdefl_mem_to_mem", IF e.cap >= e.need THEN e.ret = e.need /\ e.data = e.want ELSE e.ret = 0)
     IN Report(fails, 1)
  /\ l' = l + 1
  /\ Keep(<<acc, cs, ip, cid, dc, ds, ss, cc, seen>>)

EvCMemToHeap ==
  /\ Is("c_mem_to_heap")
  /\ Report(CIff("c_tinfl_mem_to_heap", ~E.isnull /\ E.len = Len(PIn) /\ E.data = PIn), 1)
  /\ l' = l + 1
  /\ Keep(<<acc, cs, ip, cid, dc, ds, ss, cc, seen>>)

\* tinfl_decompress (out_buf_start / out_buf_next form) against the Rust decoder
EvCTinfl ==
  /\ Is("c_tinfl")
  /\ LET e == E
         fails ==
              CIff("c_tinfl_same_status_as_rust", e.status = e.twin.status)
           \o CIff("c_tinfl_same_counts_as_rust", e.consumed = e.twin.consumed /\ e.written = e.twin.written)
           \o CIff("c_tinfl_same_bytes_as_rust", e.data = e.twin_data)
           \o CIff("c_tinfl_counts_within_offered", e.consumed <= e.in_len /\ e.written <= e.budget)
     IN Report(fails, 4)
  /\ l' = l + 1
  /\ Keep(<<acc, cs, ip, cid, dc, ds, ss, cc, seen>>)

\* tdefl_compress / tdefl_compress_buffer against compress() / compress_to_output()
EvCTdefl ==
  /\ Is("c_tdefl")
  /\ LET e == E
         fails ==
              CIff("c_tdefl_same_status_as_rust", e.status = e.twin.status /\ e.prev = e.twin_prev)
           \o CIff("c_tdefl_same_counts_as_rust", e.consumed = e.twin.consumed /\ e.written = e.twin.written)
           \o CIff("c_tdefl_same_bytes_as_rust", e.data = e.twin_data)
           \o CIff("c_tdefl_same_adler_as_rust", e.adler = e.twin_adler)
           \o CIff("c_tdefl_counts_within_offered", e.consumed <= e.in_len /\ (e.out_len >= 0 => e.written <= e.out_len))
     IN Report(fails, 5)
  /\ l' = l + 1
  /\ Keep(<<acc, cs, ip, cid, dc, ds, ss, cc, seen>>)

EvCBound ==
  /\ Is("c_bound")
  /\ LET e == E
         fails ==
              CIff("bound_function_value", e.bound = Bound(e.n) /\ e.dbound = Bound(e.n))
           \o CIff("one_call_compress_with_bound_sized_destination_succeeds", e.ret = 0)
           \o CIff("output_within_bound", e.out_len <= e.bound)
           \o CIff("unconstrained_output_within_bound", e.free_status = 1 /\ e.free_len <= e.bound)
     IN Report(fails, 4)
  /\ l' = l + 1
  /\ Keep(<<acc, cs, ip, cid, dc, ds, ss, cc, seen>>)

-----------------------------------------------------------------------------
(* reset / determinism / snapshots (C18, C19): the harness performs the    *)
(* same call on two objects that the property says are interchangeable and *)
(* logs both results; they must be identical, bytes included.              *)
EvPair ==
  /\ Is("pair")
  /\ Report(CIff("pair_equal_" \o E.what, E.a = E.b), 1)
  /\ l' = l + 1
  /\ Keep(<<acc, cs, ip, cid, dc, ds, ss, cc, seen>>)

\* a block-boundary stop (C19): position, pending bits and output must be those of a
\* non-final block end found by the acceptor
EvBB ==
  /\ Is("bb")
  /\ LET e == E
         z == Rec[cs].z
         endbit == 8 * e.in_total - e.num_bits
         hits == {i \in 1..Len(acc.blocks) : acc.blocks[i].endbit = endbit /\ ~acc.blocks[i].fin}
         fails ==
              CIff("boundary_has_fewer_than_8_pending_bits", e.num_bits \in 0..7)
           \o CIff("boundary_is_end_of_a_non_final_block", acc.ph = "done" => hits # {})
           \o CIff("boundary_pending_bits_are_top_bits_of_last_consumed_byte",
                   e.num_bits \in 1..7 /\ e.in_total >= 1 =>
                      e.bit_buf = z[e.in_total] \div Pow2(8 - e.num_bits))
           \o CIff("boundary_output_position",
                   acc.ph = "done" /\ hits # {} => \E i \in hits : acc.blocks[i].outend = e.out_total)
     IN Report(fails, 4)
  /\ l' = l + 1
  /\ Keep(<<acc, cs, ip, cid, dc, ds, ss, cc, seen>>)

EvNote ==
  /\ Is("note")
  /\ l' = l + 1
  /\ Keep(<<acc, cs, ip, cid, dc, ds, ss, cc, nfail, nrules, seen>>)

EvBBEnd ==
  /\ Is("bb_end")
  /\ Report(CIff("one_stop_per_non_final_block",
                 acc.ph = "done" => E.count = Len(SelectSeq(acc.blocks, LAMBDA b : ~b.fin))), 1)
  /\ l' = l + 1
  /\ Keep(<<acc, cs, ip, cid, dc, ds, ss, cc, seen>>)

-----------------------------------------------------------------------------
(* Huffman code construction of the compressor through the verif_huffman    *)
(* hook (C10, C01/C02): the rules of DeflateHuff.tla on what the real       *)
(* optimize_table returns; its transcription is compared for drift only.    *)
EvHuff ==
  /\ Is("huff")
  /\ LET e == E
         fails == HfRules(e.counts, e.sizes, e.codes, e.limit)
     IN /\ Report(fails, 5)
        /\ IF e.model /\ fails = <<>> /\ HfModelSizes(e.counts, e.limit) # e.sizes
             THEN PrintT(<<"DRIFT", "huffman_sizes", CaseId, e.counts, e.limit, e.sizes>>) ELSE TRUE
        /\ IF fails = <<>> /\ ~HfTidy(e.counts, e.sizes)
             THEN PrintT(<<"NOTE", "huffman_code_not_tidy", CaseId, e.counts, e.limit, e.sizes>>) ELSE TRUE
  /\ l' = l + 1
  /\ Keep(<<acc, cs, ip, cid, dc, ds, ss, cc, seen>>)

\* code lengths of symbols 0..n-1 in an acceptor table (count / symbol form)
TableLens(t, n) ==
  LET RECURSIVE st(_)
      st(len) == IF len <= 1 THEN 0 ELSE st(len - 1) + t.cnt[len - 1]
  IN [i \in 1..n |->
        LET ls == {len \in 1..15 : \E k \in (st(len) + 1)..(st(len) + t.cnt[len]) : t.sym[k] = i - 1}
        IN IF ls = {} THEN 0 ELSE CHOOSE len \in ls : TRUE]

\* one dynamic block written by start_dynamic_block for given counts, followed by every used
\* literal and the end-of-block code: the stream event before it ran the acceptor on it
EvHuffBlock ==
  /\ Is("huff_block")
  /\ LET e == E
         z == Rec[cs].z
         ok == acc.ph = "done" /\ acc.endbyte = Len(z)
         nocodes == [i \in 1..288 |-> 0]
         fails ==
              If(ok, "huff_block_is_a_valid_stream_decoding_every_used_literal")
           \o If(ok => /\ TableLens(acc.tl, acc.hlit) = SubSeq(e.lsizes, 1, acc.hlit)
                       /\ \A i \in (acc.hlit + 1)..288 : e.lsizes[i] = 0
                       /\ TableLens(acc.td, acc.hdist) = SubSeq(e.dsizes, 1, acc.hdist)
                       /\ \A i \in (acc.hdist + 1)..32 : e.dsizes[i] = 0,
                 "huff_header_declares_exactly_the_code_sizes_in_use")
           \o SelectSeq(HfRules(e.lit_counts, e.lsizes, nocodes, 15) \o HfRules(e.dist_counts, e.dsizes, nocodes, 15),
                        LAMBDA x : x # "huff_codes_are_bit_reversed_canonical")
     IN Report(fails, 10)
  /\ l' = l + 1
  /\ Keep(<<acc, cs, ip, cid, dc, ds, ss, cc, seen>>)

-----------------------------------------------------------------------------
Known == {"case", "input", "stream", "compressed", "roundtrip", "panic", "hang", "crash",
          "comp_new", "comp", "flushpoint", "defl", "defl_end",
          "dnew", "dec", "dec_end", "equiv", "state_same", "vec", "sliceiter", "inf_new", "inf", "inf_end", "equiv_s", "cksum",
          "c_init", "c_call", "c_reset", "c_end", "c_misuse", "c_misuse_mid", "c_compress", "c_compressed_valid",
          "c_uncompress", "c_mem_to_mem", "c_mem_to_heap", "c_bound", "c_tinfl", "c_tdefl", "pair", "bb", "bb_end", "note", "gen_expect", "zhdr",
          "huff", "huff_block"}

\* an event the spec has no action for is itself a failure (never silently skipped)
EvUnknown ==
  /\ l <= Len(Rec) /\ E.ev \notin Known /\ (acc = NoAcc \/ Terminal(acc))
  /\ Report(<<"unknown_event_" \o E.ev>>, 1)
  /\ l' = l + 1
  /\ Keep(<<acc, cs, ip, cid, dc, ds, ss, cc, seen>>)

Next == \/ EvCase \/ EvInput \/ EvStream \/ AccRun \/ EvStreamDone
        \/ EvCompressed \/ EvRoundtrip \/ EvBad
        \/ EvCompNew \/ EvComp \/ EvFlushpoint \/ EvDefl \/ EvDeflEnd
        \/ EvDNew \/ EvDec \/ EvDecEnd \/ EvStateSame \/ EvEquiv \/ EvVec \/ EvSliceIter
        \/ EvInfNew \/ EvInf \/ EvInfEnd \/ EvEquivS \/ EvCksum
        \/ EvCInit \/ EvCCall \/ EvCReset \/ EvCEnd \/ EvCMisuse \/ EvCMisuseMid \/ EvCCompress \/ EvCCompressedValid
        \/ EvCUncompress \/ EvCMemToMem \/ EvCMemToHeap \/ EvCBound \/ EvCTinfl \/ EvCTdefl
        \/ EvPair \/ EvBB \/ EvBBEnd \/ EvNote \/ EvGenExpect \/ EvZHdr \/ EvHuff \/ EvHuffBlock
        \/ EvUnknown

Spec == Init /\ [][Next]_vars

Consumed == (l = Len(Rec) + 1) =>
   PrintT(<<"CONSUMED", Len(Rec), "FAILS", nfail, "RULES", nrules, "SEEN", seen>>)
=============================================================================
