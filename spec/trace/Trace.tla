------------------------------- MODULE Trace -------------------------------
(***************************************************************************)
(* Trace validation: every line of the ndjson file IOEnv.TRACE is one      *)
(* event recorded from the real code by /verif/harness (drv).  The spec is *)
(* deterministic - all fields are logged - so TLC's search is linear in    *)
(* the trace.  A `stream` event starts the RFC 1951/1950 acceptor, which   *)
(* runs as silent steps (one per grammar production) before the next line  *)
(* is consumed.                                                            *)
(*                                                                         *)
(* A rule that fails does not stop the run: it is printed as               *)
(*   <<"FAIL", property, case id, line, <<rule names>>>>                   *)
(* and counted, and validation continues with the next event so that the   *)
(* rest of the trace is still examined.  The final line                    *)
(*   <<"CONSUMED", lines, "FAILS", n, ...>>                                *)
(* is printed when every line has been consumed.                           *)
(***************************************************************************)
EXTENDS Rfc1951, DeflateParams, DeflateContract, Json, IOUtils

Rec == ndJsonDeserialize(IOEnv.TRACE)

VARIABLES
  l,      \* next line
  acc,    \* acceptor state (NoAcc when no stream has been parsed in this case)
  cs,     \* line of the current stream event
  ip,     \* line of the current input event (plaintext shared by several streams)
  cid,    \* line of the current case event
  dc,     \* compressor-side contract state
  nfail, nrules, seen

vars == <<l, acc, cs, ip, cid, dc, nfail, nrules, seen>>

NoAcc == [ph |-> "none"]

Init == /\ l = 1 /\ acc = NoAcc /\ cs = 0 /\ ip = 0 /\ cid = 0 /\ dc = CInit
        /\ nfail = 0 /\ nrules = 0 /\ seen = {}

E == Rec[l]
Is(name) == l <= Len(Rec) /\ E.ev = name /\ (acc = NoAcc \/ Terminal(acc))
Prop == IF cid = 0 THEN "none" ELSE Rec[cid].prop
CaseId == IF cid = 0 THEN "none" ELSE Rec[cid].id

\* plaintext of a stream event: its own `p`, or the case's input event
PlainOf(i) == IF HasF(Rec[i], "p") THEN Rec[i].p ELSE Rec[ip].p
PlenOf(i) == IF HasF(Rec[i], "plen") THEN Rec[i].plen ELSE Len(PlainOf(i))
CutsOf(r) == IF HasF(r, "cuts") THEN {r.cuts[i] : i \in 1..Len(r.cuts)} ELSE {}

\* fails: sequence of failed rule names
Report(fails, n) ==
  /\ nfail' = nfail + Len(fails)
  /\ nrules' = nrules + n
  /\ IF fails = <<>> THEN TRUE ELSE PrintT(<<"FAIL", Prop, CaseId, l, fails>>)

Keep(vs) == UNCHANGED vs

-----------------------------------------------------------------------------
EvCase ==
  /\ Is("case")
  /\ cid' = l /\ l' = l + 1 /\ acc' = NoAcc /\ cs' = 0 /\ ip' = 0 /\ dc' = CInit
  /\ Keep(<<nfail, nrules, seen>>)

EvInput ==
  /\ Is("input")
  /\ ip' = l /\ l' = l + 1
  /\ Keep(<<acc, cs, cid, dc, nfail, nrules, seen>>)

\* a stream event: initialise the acceptor; the line is consumed when it terminates
EvStream ==
  /\ Is("stream") /\ cs # l
  /\ cs' = l
  /\ acc' = AccInit(E.zlib, E.mode = "produce", CutsOf(E), PlenOf(l))
  /\ Keep(<<l, ip, cid, dc, nfail, nrules, seen>>)

AccRun ==
  /\ acc # NoAcc /\ ~Terminal(acc)
  /\ acc' = Step(acc, Rec[cs].z, PlainOf(cs))
  /\ seen' = seen \cup {acc'.lastwhat}
  /\ Keep(<<l, cs, ip, cid, dc, nfail, nrules>>)

EvStreamDone ==
  /\ l <= Len(Rec) /\ E.ev = "stream" /\ cs = l /\ Terminal(acc)
  /\ l' = l + 1
  /\ Keep(<<acc, cs, ip, cid, dc, nfail, nrules, seen>>)

-----------------------------------------------------------------------------
(* compressor output judged against the configuration (C01 C02 C09 C10 C11 *)
(* C12 C14)                                                                 *)

EffCfg(cfg) ==
  IF cfg.api = "vec" THEN OneShot(cfg.zlib, cfg.level)
  ELSE IF cfg.api = "params" THEN WithParams(cfg.zlib, cfg.level, cfg.strategy, cfg.wbits)
  ELSE FromFlagsApi(cfg.zlib, cfg.level, cfg.strategy)

EvCompressed ==
  /\ Is("compressed")
  /\ LET cfg == E.cfg
         m == EffCfg(cfg)
         z == Rec[cs].z
         valid == acc.ph = "done"
         hdr == <<acc.cmf, acc.flg>>
         fails ==
              If(cs # 0 /\ valid, "output_is_a_valid_stream_decoding_to_input")
           \o If(valid => acc.endbyte = Len(z), "output_is_exactly_one_stream")
           \o If(valid /\ Prop \in {"C10", "C02", "C01"} =>
                   /\ acc.maxstored <= 65535 /\ acc.maxcodelen <= 15
                   /\ (acc.nmatch > 0 => acc.minlen >= 3 /\ acc.maxlen <= 258 /\ acc.maxdist <= 32768)
                   /\ Len(SelectSeq(acc.blocks, LAMBDA b : b.fin)) = 1,
                 "format_limits")
           \o If(valid /\ Prop = "C10" /\ ReqOnlyStored(m.elevel) => acc.btypes \subseteq {0},
                 "level0_only_stored_blocks")
           \o If(valid /\ Prop = "C10" /\ ReqNoDynamic(m.elevel, m.estrategy) => 2 \notin acc.btypes,
                 "fixed_strategy_no_dynamic_blocks")
           \o If(valid /\ Prop = "C10" /\ ReqNoMatches(m.elevel, m.estrategy) => acc.nmatch = 0,
                 "huffman_only_no_matches")
           \o If(valid /\ Prop = "C10" /\ ReqOnlyDist1(m.elevel, m.estrategy) => ~acc.nonrle,
                 "rle_only_distance_1")
           \o If(valid /\ Prop = "C10" /\ ReqMinLen5(m.elevel, m.estrategy) => acc.minlen >= 5,
                 "filtered_no_match_shorter_than_5")
           \o If(valid /\ Prop = "C10" /\ HasF(E, "redundant") /\ ReqMatching(m.elevel, m.estrategy) =>
                   4 * Len(z) < 3 * E.in_len,
                 "redundancy_exploited")
           \o If(valid /\ acc.zlib /\ cfg.wbits \in 8..15 /\ Prop \in {"C11", "C09"} =>
                   DeclaredWindow(hdr) <= 2 ^ MaxI(cfg.wbits, 8),
                 "declared_window_le_requested")
           \o If(valid /\ acc.zlib /\ cfg.wbits \in 8..15 /\ Prop = "C11" =>
                   acc.maxdist <= DeclaredWindow(hdr),
                 "distance_le_declared_window")
           \o If(valid /\ Prop = "C12" => ~acc.crosscut, "no_match_across_full_flush")
           \o If(cfg.zlib = (Rec[cs].zlib), "zlib_framing_as_requested")
     IN /\ Report(fails, 14)
        /\ IF HasF(cfg, "flags") /\ cfg.flags # m.flags
             THEN PrintT(<<"DRIFT", "flags", CaseId, cfg.flags, m.flags>>) ELSE TRUE
  /\ l' = l + 1
  /\ Keep(<<acc, cs, ip, cid, dc, seen>>)

\* the crate's own decoder on the compressor's output (C01)
EvRoundtrip ==
  /\ Is("roundtrip")
  /\ LET d == E.dec
         p == PlainOf(cs)
         n == PlenOf(cs)
         fails ==
              If(d.status = "Ok", "roundtrip_decodes")
           \o If(d.status = "Ok" => d.len = n, "roundtrip_length")
           \o If(d.status = "Ok" /\ d.len = n =>
                   d.adler = AdlerSeq(AdlerInit, SubSeq(p, 1, n)), "roundtrip_bytes")
     IN Report(fails, 3)
  /\ l' = l + 1
  /\ Keep(<<acc, cs, ip, cid, dc, seen>>)

\* a panic, hang or crash in the code under test is never allowed
EvBad ==
  /\ l <= Len(Rec) /\ E.ev \in {"panic", "hang", "crash"} /\ (acc = NoAcc \/ Terminal(acc))
  /\ Report(<<E.ev \o "_in_" \o E.where>>, 1)
  /\ l' = l + 1
  /\ Keep(<<acc, cs, ip, cid, dc, seen>>)

-----------------------------------------------------------------------------
(* low-level compress calls (C02, C12, C16)                                 *)

EvCompNew ==
  /\ Is("comp_new")
  /\ dc' = CInit
  /\ l' = l + 1
  /\ Keep(<<acc, cs, ip, cid, nfail, nrules, seen>>)

Adl(c) == c.adler

EvComp ==
  /\ Is("comp")
  /\ LET e == E
         okc == e.consumed <= e.in_len
         newad == IF okc /\ ip # 0
                    THEN AdlerSeq(Adl(dc), SubSeq(Rec[ip].p, dc.tin + 1, dc.tin + e.consumed))
                    ELSE Adl(dc)
         fails == CompRules(dc, e)
               \o If(okc /\ ip # 0 /\ HasF(e, "adler") /\ HasF(e, "zlib") /\ e.zlib =>
                       e.adler = newad, "compressor_adler_is_adler_of_consumed_input")
     IN /\ Report(fails, 6)
        /\ dc' = [CompNext(dc, e) EXCEPT !.adler = newad]
  /\ l' = l + 1
  /\ Keep(<<acc, cs, ip, cid, seen>>)

\* a qualifying flush return: the stream event before it parsed the output so far
EvFlushpoint ==
  /\ Is("flushpoint")
  /\ LET e == E
         nb == Len(acc.blocks)
         last == acc.blocks[nb]
         alldec == acc.ph = "starved" /\ acc.out = e.in_total
         fails ==
              If(e.flush \in {"Partial", "Sync", "Full", "PartialOpt", "SyncOpt"} => alldec,
                 "flush_makes_all_input_decodable")
           \o If(e.flush \in {"Sync", "Full"} /\ alldec =>
                   /\ nb > 0 /\ last.type = 0 /\ last.outstart = last.outend
                   /\ last.endbit = 8 * Len(Rec[cs].z),
                 "sync_flush_ends_with_empty_stored_block_on_byte_boundary")
     IN Report(fails, 2)
  /\ l' = l + 1
  /\ Keep(<<acc, cs, ip, cid, dc, seen>>)

-----------------------------------------------------------------------------
(* deflate() wrapper calls (C14)                                            *)

EvDefl ==
  /\ Is("defl")
  /\ Report(DeflRules(dc, E), 9)
  /\ dc' = DeflNext(dc, E)
  /\ l' = l + 1
  /\ Keep(<<acc, cs, ip, cid, seen>>)

EvDeflEnd ==
  /\ Is("defl_end")
  /\ LET e == E
         fails == If(~e.misuse => e.ended, "driver_loop_reaches_stream_end")
     IN Report(fails, 1)
  /\ l' = l + 1
  /\ Keep(<<acc, cs, ip, cid, dc, seen>>)

-----------------------------------------------------------------------------
Known == {"case", "input", "stream", "compressed", "roundtrip", "panic", "hang", "crash",
          "comp_new", "comp", "flushpoint", "defl", "defl_end"}

\* an event the spec has no action for is itself a failure (never silently skipped)
EvUnknown ==
  /\ l <= Len(Rec) /\ E.ev \notin Known /\ (acc = NoAcc \/ Terminal(acc))
  /\ Report(<<"unknown_event_" \o E.ev>>, 1)
  /\ l' = l + 1
  /\ Keep(<<acc, cs, ip, cid, dc, seen>>)

Next == \/ EvCase \/ EvInput \/ EvStream \/ AccRun \/ EvStreamDone
        \/ EvCompressed \/ EvRoundtrip \/ EvBad
        \/ EvCompNew \/ EvComp \/ EvFlushpoint \/ EvDefl \/ EvDeflEnd
        \/ EvUnknown

Spec == Init /\ [][Next]_vars

Consumed == (l = Len(Rec) + 1) =>
   PrintT(<<"CONSUMED", Len(Rec), "FAILS", nfail, "RULES", nrules, "SEEN", seen>>)
=============================================================================
