--------------------------- MODULE DeflateLZRules ---------------------------
(***************************************************************************)
(* The rules on the match finder's state (see DeflateLZ.tla), as a pure    *)
(* operator over a projection record                                       *)
(*   [lapos, lasize, dsize, taken, hist_bad, look_bad, mirror_bad, idle,   *)
(*    flush, fillmax]                                                      *)
(* so that the model (MC_DeflateLZ: its own state, DICT = 8) and the trace *)
(* specification (the real compressor's state read through the            *)
(* verif_lz_state hook after every call, DICT = 32768) evaluate the same   *)
(* definition.  Returns the names of the broken rules.                     *)
(***************************************************************************)
EXTENDS Integers, Sequences

\* the rules (names of the broken ones), parameterised by the real or the model constants
StateRules(p, dictc, maxm) ==
     (IF p.lasize + p.dsize <= dictc THEN <<>> ELSE <<"lz_lookahead_plus_history_fit_the_window">>)
  \* the same inside the call: the largest look-ahead + history the match finder ever worked with
  \* (the ring holds both: one byte more and the newest look-ahead byte overwrites the oldest history byte)
  \o (IF "fillmax" \in DOMAIN p => p.fillmax <= dictc THEN <<>> ELSE <<"lz_lookahead_plus_history_fit_the_window_during_the_call">>)
  \o (IF p.lapos + p.lasize = p.taken THEN <<>> ELSE <<"lz_every_taken_byte_is_moved_or_in_lookahead">>)
  \o (IF p.dsize <= p.lapos THEN <<>> ELSE <<"lz_history_not_larger_than_processed">>)
  \o (IF p.lasize <= maxm THEN <<>> ELSE <<"lz_lookahead_le_max_match">>)
  \o (IF p.hist_bad = 0 THEN <<>> ELSE <<"lz_history_in_ring_is_the_input">>)
  \o (IF p.look_bad = 0 THEN <<>> ELSE <<"lz_lookahead_in_ring_is_the_input">>)
  \o (IF p.mirror_bad = 0 THEN <<>> ELSE <<"lz_mirror_equals_ring_start">>)
  \o (IF p.idle /\ p.flush # "None" /\ p.lasize # 0 THEN <<"lz_flush_drains_lookahead">> ELSE <<>>)

=============================================================================
