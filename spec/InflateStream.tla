---------------------------- MODULE InflateStream ----------------------------
(***************************************************************************)
(* inflate() of miniz_oxide/src/inflate/stream.rs, guard by guard, over an *)
(* abstract low-level decoder that is only assumed to satisfy              *)
(* InflateContract: the result is "for EVERY contract-satisfying core the  *)
(* wrapper obeys C13".  One caller action per (input chunk, output size,   *)
(* flush) choice; the iterations of inflate_loop are internal steps so     *)
(* that every interleaving of core results is explored.                    *)
(*                                                                         *)
(* The stream is abstract: M stream bytes encode N plaintext bytes;        *)
(* Avail(k) plaintext bytes are decodable from the first k stream bytes.   *)
(* Kind selects what the caller owns: the valid stream, the stream plus    *)
(* trailing bytes, a truncated prefix, or a stream whose byte CorruptAt    *)
(* violates the format.  DICT is the window size (32768 in the code,       *)
(* scaled down here; the wrap mask becomes a modulus).                     *)
(***************************************************************************)
EXTENDS Integers, Sequences, TLC, InflateContract

CONSTANTS N, M, DICT, Kind, Trail, TruncAt, CorruptAt,
          InChoices,    \* chunk sizes a caller may offer (capped by what is left)
          OutChoices    \* output sizes

MinN(a, b) == IF a <= b THEN a ELSE b

Avail(k) == IF k >= M THEN N ELSE (k * N) \div M
\* stream bytes needed before p plaintext bytes exist
Need(p) == CHOOSE k \in 0..M : Avail(k) >= p /\ \A j \in 0..(k-1) : Avail(j) < p
MaxN(a, b) == IF a >= b THEN a ELSE b
\* bytes of the stream the caller can ever supply
Supply == CASE Kind = "trailing" -> M + Trail
            [] Kind = "truncated" -> TruncAt
            [] OTHER -> M
\* what the acceptor would say about it
K == CASE Kind \in {"valid", "trailing"} -> [v |-> "done", why |-> "", plen |-> N, endbyte |-> M, prefix |-> FALSE]
       [] Kind = "truncated" -> [v |-> "starved", why |-> "", plen |-> 0, endbyte |-> 0, prefix |-> TRUE]
       [] OTHER -> [v |-> "rej", why |-> "corrupt", plen |-> 0, endbyte |-> 0, prefix |-> FALSE]

VARIABLES
  cpos, cprod, cstate,      \* core: stream bytes consumed, plaintext produced, "run" | "done" | "failed"
  dofs, davail,             \* dict_ofs, dict_avail
  first, flushed, last,     \* first_call, has_flushed, last_status
  tin,                      \* stream bytes handed over and consumed so far
  pc,                       \* "idle" | "loop"
  lin, lout, lc, lw, lflush, lorig, lolen,   \* locals of the call in progress
  cs,                       \* InflateContract!SInit-shaped summary of the history
  viol,                     \* contract rules broken by the last return
  res                       \* last result
vars == <<cpos, cprod, cstate, dofs, davail, first, flushed, last, tin, pc, lin, lout, lc, lw, lflush, lorig, lolen, cs, viol, res>>

NoRes == [status |-> "none", consumed |-> 0, written |-> 0]

Init ==
  /\ cpos = 0 /\ cprod = 0 /\ cstate = "run"
  /\ dofs = 0 /\ davail = 0 /\ first = TRUE /\ flushed = FALSE /\ last = "NeedsMoreInput"
  /\ tin = 0 /\ pc = "idle"
  /\ lin = 0 /\ lout = 0 /\ lc = 0 /\ lw = 0 /\ lflush = "None" /\ lorig = 0 /\ lolen = 0
  /\ cs = SInit /\ viol = <<>> /\ res = NoRes

-----------------------------------------------------------------------------
(* The abstract core: every <<status, consumed, written>> InflateContract  *)
(* allows for a call offering inLen bytes (starting at stream offset cpos) *)
(* with `space` bytes of output and the has-more flag.                     *)


CoreResults(inLen, space, more) ==
  IF cstate = "failed" THEN {<<"Failed", 0, 0>>}
  ELSE IF cstate = "done" THEN {<<"Done", 0, 0>>}
  ELSE
  LET lim == cpos + inLen                      \* bytes visible
      cut == IF Kind = "corrupt" THEN MinN(lim, CorruptAt - 1) ELSE lim   \* usable bytes
      dec == Avail(cut) - cprod                \* plaintext decodable now
      w == MinN(space, dec)
      hitcorrupt == Kind = "corrupt" /\ lim >= CorruptAt
  IN IF w < dec
       THEN \* output limited: may have read ahead anywhere up to what was offered
            {<<"HasMoreOutput", c, w>> : c \in MaxN(0, Need(cprod + w) - cpos)..MinN(inLen, M - cpos)}
     ELSE IF hitcorrupt
       THEN {<<"Failed", c, w>> : c \in (CorruptAt - cpos)..inLen}
     ELSE IF lim >= M /\ cprod + w = N
       THEN {<<"Done", M - cpos, w>>}
     ELSE IF more
       THEN {<<"NeedsMoreInput", inLen, w>>} \cup (IF w = space THEN {<<"HasMoreOutput", inLen, w>>} ELSE {})
     ELSE {<<"FailedCannotMakeProgress", inLen, w>>}

CoreNext(r) ==
  /\ cpos' = cpos + r[2] /\ cprod' = cprod + r[3]
  /\ cstate' = IF r[1] = "Done" THEN "done" ELSE IF r[1] = "Failed" THEN "failed" ELSE cstate

-----------------------------------------------------------------------------
Return(st, c, w, inLen, outLen, flush) ==
  LET e == [in_len |-> inLen, out_len |-> outLen, flush |-> flush, status |-> st, consumed |-> c, written |-> w,
            all_input |-> tin + inLen = Supply]
  IN /\ res' = e
     /\ viol' = InfRules(cs, e, K, TRUE)
     /\ cs' = [InfNext(cs, e, <<1, 0>>) EXCEPT !.ncalls = 0]
     /\ tin' = tin + c
     /\ pc' = "idle"

KeepCore == UNCHANGED <<cpos, cprod, cstate>>
KeepLocals == UNCHANGED <<lin, lout, lc, lw, lflush, lorig, lolen>>

\* push_dict_out for n = min(dict_avail, room)
Pushed(av, room) == MinN(av, room)

Call(inLen, outLen, flush) ==
  /\ pc = "idle" /\ inLen <= Supply - tin
  /\ IF flush = "Full" THEN
       /\ Return("ErrStream", 0, 0, inLen, outLen, flush)
       /\ KeepCore /\ KeepLocals /\ UNCHANGED <<dofs, davail, first, flushed, last>>
     ELSE
     /\ first' = FALSE
     /\ IF last = "FailedCannotMakeProgress" THEN
          /\ Return("ErrBuf", 0, 0, inLen, outLen, flush)
          /\ KeepCore /\ KeepLocals /\ UNCHANGED <<dofs, davail, flushed, last>>
        ELSE IF Negative(last) THEN
          /\ Return("ErrData", 0, 0, inLen, outLen, flush)
          /\ KeepCore /\ KeepLocals /\ UNCHANGED <<dofs, davail, flushed, last>>
        ELSE IF flushed /\ flush # "Finish" THEN
          /\ Return("ErrStream", 0, 0, inLen, outLen, flush)
          /\ KeepCore /\ KeepLocals /\ UNCHANGED <<dofs, davail, flushed, last>>
        ELSE
        /\ flushed' = (flushed \/ flush = "Finish")
        /\ IF flush = "Finish" /\ first THEN
             \* first-call Finish: decode straight into the caller's buffer (non-wrapping)
             \E r \in CoreResults(inLen, outLen, FALSE) :
               /\ CoreNext(r)
               /\ IF r[1] = "FailedCannotMakeProgress" THEN last' = r[1] /\ Return("ErrBuf", r[2], r[3], inLen, outLen, flush)
                  ELSE IF Negative(r[1]) THEN last' = r[1] /\ Return("ErrData", r[2], r[3], inLen, outLen, flush)
                  ELSE IF r[1] # "Done" THEN last' = "Failed" /\ Return("ErrBuf", r[2], r[3], inLen, outLen, flush)
                  ELSE last' = r[1] /\ Return("StreamEnd", r[2], r[3], inLen, outLen, flush)
               /\ KeepLocals /\ UNCHANGED <<dofs, davail>>
           ELSE IF davail # 0 THEN
             \* deliver what is still pending in the window before decoding more
             LET n == Pushed(davail, outLen) IN
             /\ davail' = davail - n /\ dofs' = (dofs + n) % DICT
             /\ Return(IF last = "Done" /\ davail - n = 0 THEN "StreamEnd" ELSE "Ok", 0, n, inLen, outLen, flush)
             /\ KeepCore /\ KeepLocals /\ UNCHANGED last
           ELSE
             /\ pc' = "loop"
             /\ lin' = inLen /\ lout' = outLen /\ lc' = 0 /\ lw' = 0 /\ lflush' = flush /\ lorig' = inLen /\ lolen' = outLen
             /\ KeepCore /\ UNCHANGED <<dofs, davail, last, tin, cs, viol, res>>

\* one iteration of inflate_loop
LoopStep ==
  /\ pc = "loop"
  /\ \E r \in CoreResults(lin, DICT - dofs, lflush # "Finish") :
       LET st == r[1]
           nin == lin - r[2]
           n == Pushed(r[3], lout)
           nav == r[3] - n
           nout == lout - n
           c2 == lc + r[2]
           w2 == lw + n
           Ret(s) == Return(s, c2, w2, lorig, lolen, lflush)
           stay == /\ pc' = "loop" /\ lin' = nin /\ lout' = nout /\ lc' = c2 /\ lw' = w2
                   /\ UNCHANGED <<lflush, lorig, lolen, tin, cs, viol, res>>
           done == UNCHANGED <<lin, lout, lc, lw, lflush, lorig, lolen>>
       IN /\ CoreNext(r)
          /\ last' = st
          /\ davail' = nav /\ dofs' = (dofs + n) % DICT
          /\ UNCHANGED <<first, flushed>>
          /\ IF st = "FailedCannotMakeProgress" THEN Ret("ErrBuf") /\ done
             ELSE IF Negative(st) THEN Ret("ErrData") /\ done
             ELSE IF st = "NeedsMoreInput" /\ lorig = 0 THEN Ret("ErrBuf") /\ done
             ELSE IF lflush = "Finish" THEN
               (IF st = "Done" THEN Ret(IF nav # 0 THEN "ErrBuf" ELSE "StreamEnd") /\ done
                ELSE IF nout = 0 THEN Ret("ErrBuf") /\ done
                ELSE stay)
             ELSE
               (IF st = "Done" \/ nin = 0 \/ nout = 0 \/ nav # 0
                  THEN Ret(IF st = "Done" /\ nav = 0 THEN "StreamEnd" ELSE "Ok") /\ done
                  ELSE stay)

Flushes == {"None", "Sync", "Finish", "Full"}

InLenFor(ch) == MinN(ch, Supply - tin)

Next ==
  \/ \E ch \in InChoices, ol \in OutChoices, fl \in Flushes : Call(InLenFor(ch), ol, fl)
  \/ LoopStep

Spec == Init /\ [][Next]_vars

-----------------------------------------------------------------------------
(* C13 as invariants of the model.                                          *)

\* the wrapper refines the per-call contract (the rules real traces are judged by)
ContractHolds == viol = <<>>

\* the slice handed to push_dict_out is inside the window
WindowInRange == dofs < DICT /\ dofs + davail <= DICT /\ davail >= 0

\* delivered plaintext never exceeds what the core produced; the rest is pending in the window
Conservation == pc = "idle" => cs.tout + davail = cprod

\* counts within offered
CountsWithinOffered == res.status # "none" => res.consumed <= res.in_len /\ res.written <= res.out_len

\* stream end exactly when everything is delivered and consumed
StreamEndExact == (res.status = "StreamEnd" /\ K.v = "done") => cs.tout = N /\ cs.tin = M

\* never stream end on a truncated or corrupt stream
NoFalseEnd == K.v # "done" => ~cs.ended

\* the loop always terminates: each iteration consumes input, delivers output, or returns
\* (checked as a bound on the number of consecutive internal steps through lc, lw)
LoopBounded == pc = "loop" => lc <= lorig /\ lw <= lolen

-----------------------------------------------------------------------------
(* Liveness: the usual driver loop - offer what is left, provide output    *)
(* space, flush None - reaches stream end on every valid stream.           *)

DriverNext ==
  \/ /\ ~cs.ended /\ ~cs.dataerr
     /\ \E ch \in InChoices \ {0}, ol \in OutChoices \ {0} : Call(InLenFor(ch), ol, "None")
  \/ LoopStep
DriverSpec == Init /\ [][DriverNext]_vars /\ WF_vars(DriverNext)
DriverTerminates == <>(cs.ended \/ cs.dataerr \/ res.status = "ErrBuf")
DriverCompletes == (K.v = "done") => <>(cs.ended /\ cs.tout = N)

=============================================================================
