---------------------------- MODULE DeflateStream ----------------------------
(***************************************************************************)
(* deflate() of miniz_oxide/src/deflate/stream.rs over the DeflateCore     *)
(* model of compress(): the early exits (empty output, already finished),  *)
(* the loop that keeps calling compress() until the stream ends, the       *)
(* output is full or the input is used up, and the mapping of statuses.    *)
(* The caller is free: any chunk, output size (including 0) and flush on   *)
(* every call.  Each return is judged by DeflateContract!DeflRules (the    *)
(* rules real traces are validated against) - C14.                         *)
(***************************************************************************)
EXTENDS DeflateCore

VARIABLES
  dpc,                 \* "idle" | "loop" (a deflate() call is in progress)
  din, dout, dflush,   \* the call's input length, output length, flush
  dcon, dwr,           \* consumed / written so far in this call
  wait,                \* a compress() call has been issued and not yet examined
  ds, dviol, dres      \* wrapper-level contract state, broken rules, last result
svars == <<vars, dpc, din, dout, dflush, dcon, dwr, wait, ds, dviol, dres>>

SInit2 ==
  /\ Init
  /\ dpc = "idle" /\ din = 0 /\ dout = 0 /\ dflush = "None" /\ dcon = 0 /\ dwr = 0 /\ wait = FALSE
  /\ ds = CInit /\ dviol = <<>> /\ dres = [status |-> "none", consumed |-> 0, written |-> 0, in_len |-> 0, out_len |-> 0, flush |-> "None"]

WFlushes == {"None", "Sync", "Full", "Finish"}

DReturn(st, c, w) ==
  LET e == [in_len |-> din', out_len |-> dout', flush |-> dflush', status |-> st, consumed |-> c, written |-> w]
  IN /\ dres' = e
     /\ dviol' = DeflRules(ds, e)
     /\ ds' = [DeflNext(ds, e) EXCEPT !.ncalls = 0, !.tin = 0, !.tout = 0]
     /\ dpc' = "idle"

\* deflate(compressor, input, output, flush): the two early exits, else enter the loop
Deflate(chunk, outsz, flush) ==
  /\ dpc = "idle" /\ pc = "idle" /\ chunk <= NIN - taken
  /\ din' = chunk /\ dout' = outsz /\ dflush' = flush /\ dcon' = 0 /\ dwr' = 0 /\ wait' = FALSE
  /\ IF outsz = 0 THEN DReturn("ErrBuf", 0, 0)
     ELSE IF prev = "Done" THEN (IF flush = "Finish" THEN DReturn("StreamEnd", 0, 0) ELSE DReturn("ErrBuf", 0, 0))
     ELSE dpc' = "loop" /\ UNCHANGED <<ds, dviol, dres>>
  /\ UNCHANGED vars

\* one compress() call from inside the loop, with what is left of the buffers
Issue ==
  /\ dpc = "loop" /\ pc = "idle" /\ ~wait
  /\ Call(din - dcon, dout - dwr, dflush)
  /\ wait' = TRUE
  /\ UNCHANGED <<dpc, din, dout, dflush, dcon, dwr, ds, dviol, dres>>

\* the internal steps of compress()
Inner ==
  /\ dpc = "loop" /\ pc # "idle"
  /\ (BadParam \/ Drain \/ Take \/ Tokenise \/ InternalFlush \/ Finishup)
  /\ UNCHANGED <<dpc, din, dout, dflush, dcon, dwr, wait, ds, dviol, dres>>

\* examine the result of compress() and either return or go round again
Examine ==
  /\ dpc = "loop" /\ pc = "idle" /\ wait
  /\ LET c2 == dcon + res.consumed
         w2 == dwr + res.written
         keep == UNCHANGED <<din, dout, dflush>>
     IN /\ wait' = FALSE /\ dcon' = c2 /\ dwr' = w2 /\ keep
        /\ IF res.status = "BadParam" THEN DReturn("ErrParam", c2, w2)
           ELSE IF res.status = "Done" THEN DReturn("StreamEnd", c2, w2)
           ELSE IF w2 = dout THEN DReturn("Ok", c2, w2)
           ELSE IF c2 = din /\ dflush # "Finish"
             THEN (IF dflush # "None" \/ c2 > 0 \/ w2 > 0 THEN DReturn("Ok", c2, w2) ELSE DReturn("ErrBuf", c2, w2))
           ELSE dpc' = "loop" /\ UNCHANGED <<ds, dviol, dres>>
  /\ UNCHANGED vars

NextS ==
  \/ \E ch \in 0..(NIN - taken), o \in OutChoices \cup {0}, f \in WFlushes : Deflate(ch, o, f)
  \/ Issue \/ Inner \/ Examine

SpecS == SInit2 /\ [][NextS]_svars

-----------------------------------------------------------------------------
\* every return of deflate() satisfies the per-call contract (C14)
WrapperContractHolds == dviol = <<>>

\* the loop always terminates with the buffers' bounds respected
WrapperCounts == dcon <= din /\ dwr <= dout

\* stream end only when the compressor is finished with nothing pending
StreamEndTruthful == dres.status = "StreamEnd" => fin /\ Pending = 0

=============================================================================
