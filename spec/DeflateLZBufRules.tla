-------------------------- MODULE DeflateLZBufRules --------------------------
(* The rule on the LZ code buffer (see DeflateLZBuf.tla) as a pure operator, shared by the model
   and the trace specification. *)
EXTENDS Integers, Sequences

WorstStep == 6   \* deferred literal (1) + its new flag byte (1) + match (3) + its new flag byte (1)

LzBufRule(p, size) ==
  IF "codepos_max" \in DOMAIN p => p.codepos_max + WorstStep <= size
    THEN <<>> ELSE <<"lz_code_buffer_keeps_room_for_the_worst_step">>
=============================================================================
