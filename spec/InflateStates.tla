---------------------------- MODULE InflateStates ----------------------------
(***************************************************************************)
(* The state machine of decompress_with_limit (miniz_oxide/src/inflate/    *)
(* core.rs) at the granularity of its `State` enum: which state follows    *)
(* which, where a call can be suspended and with which status.  The stream *)
(* content is left to the environment (every branch a state can take is    *)
(* taken for some stream), and so are the two resources a call can run out *)
(* of: input (any read may find too few bits) and output room (any write   *)
(* may find the region full).                                              *)
(*                                                                         *)
(* What it is for:                                                         *)
(*  - TLC computes the set of reachable (state, exit status) pairs         *)
(*    (SuspensionPairs, collected by the Collect "invariant").  It is the  *)
(*    denominator of the coverage that the checks report for the decoder:  *)
(*    the verif_state hook tells in which state every real call ended, and *)
(*    the evidence lists reached / reachable pairs and the pairs missed.   *)
(*  - every pair the real decoder shows must be one the model allows, and  *)
(*    the state a call resumes from and the one it ends in must be         *)
(*    connected in the model's graph; a pair or a step the model does not  *)
(*    have is reported as DRIFT (the model is implementation-shaped, not a *)
(*    requirement) - see DESIGN.md.                                        *)
(*  - the safety statements below (sticky failure states, Done only from   *)
(*    DoneForever, the trailer is read only in zlib mode, a block-boundary *)
(*    stop only after a non-final block) are invariants of the graph.      *)
(***************************************************************************)
EXTENDS Integers, FiniteSets, TLC

FailStates == {"BlockTypeUnexpected", "BadCodeSizeSum", "BadDistOrLiteralTableLength", "BadTotalSymbols",
               "BadZlibHeader", "DistanceOutOfBounds", "BadRawLength", "BadCodeSizeDistPrevLookup",
               "InvalidLitlen", "InvalidDist"}
States == {"Start", "ReadZlibCmf", "ReadZlibFlg", "ReadBlockHeader", "BlockTypeNoCompression", "RawHeader",
           "RawMemcpy1", "RawMemcpy2", "ReadTableSizes", "ReadHufflenTableCodeSize",
           "ReadLitlenDistTablesCodeSize", "ReadExtraBitsCodeSize", "DecodeLitlen", "WriteSymbol",
           "ReadExtraBitsLitlen", "DecodeDistance", "ReadExtraBitsDistance", "RawReadFirstByte",
           "RawStoreFirstByte", "WriteLenBytesToEnd", "BlockDone", "HuffDecodeOuterLoop1",
           "HuffDecodeOuterLoop2", "ReadAdler32", "DoneForever"} \cup FailStates

VARIABLES
  st,        \* r.state
  fin,       \* r.finish (the block being decoded is the last one)
  exit,      \* "none" while a call is running, else the status it returned
  from,      \* the state the running / last call started from
  zlib, hasmore, stopbb,   \* flags of the call: parse zlib header, has-more-input, stop on block boundary
  full       \* the output region has no room left
vars == <<st, fin, exit, from, zlib, hasmore, stopbb, full>>

Init == /\ st = "Start" /\ fin = FALSE /\ exit = "none" /\ from = "Start"
        /\ zlib \in BOOLEAN /\ hasmore \in BOOLEAN /\ stopbb \in BOOLEAN /\ full \in BOOLEAN

\* the caller comes back (any status is followed by another call sooner or later; `init()` is
\* the separate action Reinit)
Resume ==
  /\ exit # "none"
  /\ exit' = "none" /\ from' = (IF exit = "BlockBoundary" THEN "ReadBlockHeader" ELSE st)
  /\ st' = (IF exit = "BlockBoundary" THEN "ReadBlockHeader" ELSE st)
  /\ hasmore' \in BOOLEAN /\ stopbb' \in BOOLEAN /\ full' \in BOOLEAN
  /\ UNCHANGED <<fin, zlib>>
Reinit ==
  /\ exit # "none"
  /\ st' = "Start" /\ from' = "Start" /\ fin' = FALSE /\ exit' = "none"
  /\ zlib' \in BOOLEAN /\ hasmore' \in BOOLEAN /\ stopbb' \in BOOLEAN /\ full' \in BOOLEAN

Jump(s) == st' = s /\ UNCHANGED <<fin, exit, from, zlib, hasmore, stopbb, full>>
\* after a write the region may have become full
JumpW(s) == st' = s /\ full' \in {full, TRUE} /\ UNCHANGED <<fin, exit, from, zlib, hasmore, stopbb>>
End(status) == exit' = status /\ UNCHANGED <<st, fin, from, zlib, hasmore, stopbb, full>>
\* a read that finds too little input: end_of_input(flags), and the final override
\* "HasMoreOutput overrides NeedsMoreInput if the output buffer is full (unless reading the trailer)"
Starve ==
  End(IF ~hasmore THEN "FailedCannotMakeProgress"
      ELSE IF full /\ st # "ReadAdler32" THEN "HasMoreOutput" ELSE "NeedsMoreInput")
NoRoom == full /\ End("HasMoreOutput")

Step ==
  /\ exit = "none"
  /\ CASE st = "Start" -> Jump(IF zlib THEN "ReadZlibCmf" ELSE "ReadBlockHeader")
       [] st = "ReadZlibCmf" -> Starve \/ Jump("ReadZlibFlg")
       [] st = "ReadZlibFlg" -> Starve \/ Jump("ReadBlockHeader") \/ Jump("BadZlibHeader")
       [] st = "ReadBlockHeader" ->
            \/ Starve
            \/ \E f \in BOOLEAN, s \in {"BlockTypeNoCompression", "DecodeLitlen", "ReadTableSizes", "BlockTypeUnexpected"} :
                 st' = s /\ fin' = f /\ UNCHANGED <<exit, from, zlib, hasmore, stopbb, full>>
       [] st = "BlockTypeNoCompression" -> Starve \/ Jump("RawHeader")
       [] st = "RawHeader" -> Starve \/ Jump("RawHeader") \/ Jump("BadRawLength") \/ Jump("BlockDone")
                              \/ Jump("RawReadFirstByte") \/ Jump("RawMemcpy1")
       [] st = "RawReadFirstByte" -> Starve \/ Jump("RawStoreFirstByte")
       [] st = "RawStoreFirstByte" -> NoRoom \/ (~full /\ (JumpW("RawMemcpy1") \/ JumpW("RawReadFirstByte")))
       [] st = "RawMemcpy1" -> Jump("BlockDone") \/ NoRoom \/ (~full /\ Jump("RawMemcpy2"))
       [] st = "RawMemcpy2" -> Starve \/ JumpW("RawMemcpy1")
       [] st = "ReadTableSizes" -> Starve \/ Jump("ReadTableSizes") \/ Jump("ReadHufflenTableCodeSize")
                                   \/ Jump("BadDistOrLiteralTableLength")
       [] st = "ReadHufflenTableCodeSize" ->
            Starve \/ Jump("ReadHufflenTableCodeSize")
            \/ Jump("ReadLitlenDistTablesCodeSize") \/ Jump("BadTotalSymbols") \/ End("Failed")   \* init_tree
       [] st = "ReadLitlenDistTablesCodeSize" ->
            Starve \/ Jump("ReadLitlenDistTablesCodeSize") \/ Jump("BadCodeSizeDistPrevLookup")
            \/ Jump("ReadExtraBitsCodeSize") \/ Jump("BadCodeSizeSum")
            \/ Jump("DecodeLitlen") \/ Jump("BadTotalSymbols") \/ End("Failed")                  \* init_tree
       [] st = "ReadExtraBitsCodeSize" -> Starve \/ Jump("ReadLitlenDistTablesCodeSize")
       [] st = "DecodeLitlen" ->
            \* slow path: one symbol; fast loop (decompress_fast): comes back in DecodeLitlen / BlockDone
            \* or fails in InvalidLitlen / InvalidDist / DistanceOutOfBounds; middle path: up to two symbols
            \/ Starve \/ Jump("WriteSymbol")
            \/ (~full /\ (JumpW("DecodeLitlen") \/ JumpW("BlockDone") \/ JumpW("HuffDecodeOuterLoop1")))
            \/ (~full /\ \E s \in {"InvalidLitlen", "InvalidDist", "DistanceOutOfBounds"} : st' = s /\ exit' = "Failed"
                              /\ UNCHANGED <<fin, from, zlib, hasmore, stopbb, full>>)
       [] st = "WriteSymbol" -> Jump("HuffDecodeOuterLoop1") \/ NoRoom \/ (~full /\ JumpW("DecodeLitlen"))
       [] st = "HuffDecodeOuterLoop1" -> Jump("BlockDone") \/ Jump("InvalidLitlen") \/ Jump("ReadExtraBitsLitlen")
                                         \/ Jump("DecodeDistance")
       [] st = "ReadExtraBitsLitlen" -> Starve \/ Jump("DecodeDistance")
       [] st = "DecodeDistance" -> Starve \/ Jump("InvalidDist") \/ Jump("ReadExtraBitsDistance")
                                   \/ Jump("HuffDecodeOuterLoop2")
       [] st = "ReadExtraBitsDistance" -> Starve \/ Jump("HuffDecodeOuterLoop2")
       [] st = "HuffDecodeOuterLoop2" -> Jump("DistanceOutOfBounds") \/ Jump("DecodeLitlen") \/ Jump("WriteLenBytesToEnd")
                                         \/ (~full /\ JumpW("DecodeLitlen"))
       [] st = "WriteLenBytesToEnd" -> Jump("DistanceOutOfBounds") \/ NoRoom
                                       \/ (~full /\ (JumpW("DecodeLitlen") \/ JumpW("WriteLenBytesToEnd")))
       [] st = "BlockDone" ->
            IF fin THEN (Starve \/ Jump(IF zlib THEN "ReadAdler32" ELSE "DoneForever"))    \* pad_to_bytes reads
            ELSE IF stopbb THEN End("BlockBoundary") ELSE Jump("ReadBlockHeader")
       [] st = "ReadAdler32" -> Starve \/ Jump("ReadAdler32") \/ Jump("DoneForever")
       [] st = "DoneForever" -> End("Done") \/ End("Adler32Mismatch")
       [] OTHER -> End("Failed")             \* every failure state

Next == Step \/ Resume \/ Reinit
Spec == Init /\ [][Next]_vars

-----------------------------------------------------------------------------
TypeOK == st \in States /\ exit \in {"none", "Done", "NeedsMoreInput", "HasMoreOutput", "Failed",
                                      "FailedCannotMakeProgress", "BlockBoundary", "Adler32Mismatch"}
\* a failure state is never left except by init()
FailureSticky == [][(st \in FailStates /\ st' # st) => st' = "Start"]_vars
\* completion is reported from DoneForever only, and only after the last block
DoneOnlyAtEnd == (exit \in {"Done", "Adler32Mismatch"}) => (st = "DoneForever" /\ fin)
\* the trailer states are visited in zlib mode only
TrailerOnlyZlib == st = "ReadAdler32" => zlib
\* a block-boundary stop is reported only after a non-final block
BoundaryOnlyNonFinal == exit = "BlockBoundary" => (st = "BlockDone" /\ ~fin)
\* "needs more input" only with the has-more flag, "has more output" only when the region is full
StatusNeedsCause == /\ (exit = "NeedsMoreInput" => hasmore)
                    /\ (exit = "HasMoreOutput" => full)
                    /\ (exit = "FailedCannotMakeProgress" => ~hasmore)

\* prints every reachable <<state, status>> pair and every <<resumed from, ended in>> pair once
\* (run with -workers 1; the registers are initialised by the ASSUME)
ASSUME TLCSet(1, {}) /\ TLCSet(2, {})
Collect ==
  exit # "none" =>
    /\ (IF <<st, exit>> \in TLCGet(1) THEN TRUE
        ELSE TLCSet(1, TLCGet(1) \cup {<<st, exit>>}) /\ PrintT(<<"PAIR", st, exit>>))
    /\ (IF <<from, st>> \in TLCGet(2) THEN TRUE
        ELSE TLCSet(2, TLCGet(2) \cup {<<from, st>>}) /\ PrintT(<<"CALL", from, st>>))
=============================================================================
