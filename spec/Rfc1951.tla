------------------------------ MODULE Rfc1951 ------------------------------
(***************************************************************************)
(* RFC 1951 (DEFLATE) and RFC 1950 (zlib) as a deterministic acceptor.    *)
(*                                                                         *)
(* This module is the only oracle for "what a stream means" in /verif.     *)
(* It is written from the RFCs (tables below are the RFC tables); it       *)
(* shares no code and no tables with miniz_oxide.                          *)
(*                                                                         *)
(* The acceptor is a pure state machine over a record `a`; the stream `z`  *)
(* (sequence of bytes 0..255) and, in Verify mode, the expected plaintext  *)
(* `p` are passed as arguments so that they never become part of a TLC     *)
(* state.  One call of Step decodes one grammar production (zlib header,   *)
(* block header, stored block, table sizes, code-length code, one code     *)
(* length, one literal, one match, end-of-block, trailer).                 *)
(*                                                                         *)
(* Choices the RFC leaves open are fixed to zlib's behaviour:              *)
(*   - HLIT+257 <= 286 and HDIST+1 <= 30 are enforced                      *)
(*   - the code-length code must be complete                               *)
(*   - literal/length and distance codes may be incomplete only when the   *)
(*     longest code is at most 1 bit (single 1-bit code, or no code)       *)
(*   - a distance reaching before the start of the output is invalid       *)
(*     (flat window); with a ring window `ring > 0` such a distance reads  *)
(*     the caller's buffer, which the acceptor does not model: it reports  *)
(*     the verdict "prehistory" so that callers can treat it separately    *)
(***************************************************************************)
EXTENDS Integers, Sequences, FiniteSets, TLC, SequencesExt

LenBase  == <<3,4,5,6,7,8,9,10,11,13,15,17,19,23,27,31,35,43,51,59,67,83,99,
              115,131,163,195,227,258>>
LenExtra == <<0,0,0,0,0,0,0,0,1,1,1,1,2,2,2,2,3,3,3,3,4,4,4,4,5,5,5,5,0>>
DistBase == <<1,2,3,4,5,7,9,13,17,25,33,49,65,97,129,193,257,385,513,769,
              1025,1537,2049,3073,4097,6145,8193,12289,16385,24577>>
DistExtra == <<0,0,0,0,1,1,2,2,3,3,4,4,5,5,6,6,7,7,8,8,9,9,10,10,11,11,12,12,
               13,13>>
ClOrder  == <<16,17,18,0,8,7,9,6,10,5,11,4,12,3,13,2,14,1,15>>

P2 == <<1,2,4,8,16,32,64,128,256,512,1024,2048,4096,8192,16384,32768,65536,
        131072,262144,524288,1048576,2097152,4194304,8388608,16777216>>
Pow2(k) == P2[k+1]

Max2(x, y) == IF x >= y THEN x ELSE y
Min2(x, y) == IF x <= y THEN x ELSE y

-----------------------------------------------------------------------------
(* Bit access: bit i (0-based) of the stream is bit (i % 8) of byte        *)
(* z[i \div 8 + 1], least significant bit first (RFC 1951 3.1.1).          *)

ByteAt(z, i) == IF i >= 1 /\ i <= Len(z) THEN z[i] ELSE 0

\* n <= 16 bits starting at bit position pos, zero padded past the end
Peek(z, pos, n) ==
  LET b == pos \div 8 + 1
      w == ByteAt(z, b) + 256 * ByteAt(z, b+1) + 65536 * ByteAt(z, b+2)
  IN  (w \div Pow2(pos % 8)) % Pow2(n)

AvailBits(z, pos) == 8 * Len(z) - pos

-----------------------------------------------------------------------------
(* Canonical Huffman codes (RFC 1951 3.2.2), in the count/symbol form.     *)

\* lens[i] = code length of symbol i-1 (0 = unused)
RECURSIVE CatSyms(_, _)
CatSyms(lens, l) ==
  IF l > 15 THEN <<>>
  ELSE SelectSeq([i \in 1..Len(lens) |-> i-1], LAMBDA s : lens[s+1] = l)
       \o CatSyms(lens, l+1)

RECURSIVE LeftAfter(_, _)
\* code space left after assigning all codes of length <= l (negative:
\* over-subscribed at or before l)
LeftAfter(cnt, l) ==
  IF l = 0 THEN 1
  ELSE LET prev == LeftAfter(cnt, l-1)
       IN IF prev < 0 THEN prev ELSE 2 * prev - cnt[l]

MkTable(lens) ==
  LET cnt == [l \in 1..15 |-> Cardinality({i \in 1..Len(lens) : lens[i] = l})]
      left == LeftAfter(cnt, 15)
      used == {l \in 1..15 : cnt[l] > 0}
      maxl == IF used = {} THEN 0 ELSE CHOOSE l \in used : \A m \in used : m <= l
  IN [cnt |-> cnt, sym |-> CatSyms(lens, 1), maxlen |-> maxl,
      shape |-> IF left < 0 THEN "over" ELSE IF left > 0 THEN "incomplete" ELSE "complete"]

RECURSIVE DecAt(_, _, _, _, _, _)
DecAt(t, peek, len, code, first, index) ==
  IF len > 15 THEN [len |-> 0, sym |-> -1]
  ELSE LET c == code + ((peek \div Pow2(len-1)) % 2)
           k == t.cnt[len]
       IN IF c - k < first
            THEN [len |-> len, sym |-> t.sym[index + (c - first) + 1]]
            ELSE DecAt(t, peek, len+1, 2*c, 2*(first+k), index+k)

\* decode one symbol from the (zero padded) next 15 bits; len = 0: no code
\* of the table is a prefix of those bits
Decode(t, peek) == DecAt(t, peek, 1, 0, 0, 0)

FixedLitLens == [i \in 1..288 |-> IF i <= 144 THEN 8 ELSE IF i <= 256 THEN 9
                                  ELSE IF i <= 280 THEN 7 ELSE 8]
FixedDistLens == [i \in 1..30 |-> 5]
\* symbols 30 and 31 of the fixed distance code "will never actually occur"
\* (RFC 3.2.6) but take part in the code construction
FixedDistLens32 == [i \in 1..32 |-> 5]
FixedLit  == MkTable(FixedLitLens)
FixedDist == MkTable(FixedDistLens32)

-----------------------------------------------------------------------------
(* Adler-32 (RFC 1950 8.2) as the pair <<s1, s2>>; TLC integers are 32-bit *)
(* signed so the 32-bit value s2*65536+s1 is never formed.                 *)

AdlerInit == <<1, 0>>
AdlerByte(acc, x) == LET s1 == (acc[1] + x) % 65521 IN <<s1, (acc[2] + s1) % 65521>>
AdlerSeq(acc, s) == FoldLeft(AdlerByte, acc, s)
\* the four big-endian trailer bytes of a pair
AdlerBytes(acc) == <<acc[2] \div 256, acc[2] % 256, acc[1] \div 256, acc[1] % 256>>

-----------------------------------------------------------------------------
(* Acceptor state.                                                         *)
(*   ph    phase / verdict: "zhdr" "bhdr" "stored" "dyn" "cl" "lens"       *)
(*         "data" "trailer" | "done" "rej" "starved" "mismatch"            *)
(*   pos   bit position of the next unread bit                             *)
(*   out   number of plaintext bytes defined so far                        *)
(*   why   reject reason                                                   *)
(*   ob    output bytes (Produce mode only; <<>> in Verify mode)           *)
(*   plen  length of the expected plaintext (Verify mode): p[1..plen]      *)
(*   ignadler  the zlib trailer must be present but is not compared        *)
(*   cap   Produce mode gives up ("capped") once more than cap bytes exist *)

Terminal(a) == a.ph \in {"done", "rej", "starved", "mismatch", "capped"}

AccInit(zlib, produce, cuts, plen, ignadler, cap) ==
  [ph |-> IF zlib THEN "zhdr" ELSE "bhdr", pos |-> 0, out |-> 0, fin |-> FALSE,
   zlib |-> zlib, produce |-> produce, why |-> "", ob |-> <<>>, plen |-> plen, ignadler |-> ignadler, cap |-> cap,
   tl |-> FixedLit, td |-> FixedDist, hlit |-> 0, hdist |-> 0, hclen |-> 0,
   tc |-> FixedDist, lens |-> <<>>, btype |-> 0,
   cmf |-> 0, flg |-> 0, endbyte |-> 0,
   \* statistics
   nblk |-> 0, btypes |-> {}, nlit |-> 0, nmatch |-> 0, minlen |-> 999,
   maxlen |-> 0, maxdist |-> 0, nonrle |-> FALSE, maxstored |-> 0,
   maxcodelen |-> 0, cuts |-> cuts, crosscut |-> FALSE,
   blocks |-> <<>>, blkstart |-> 0, blkout |-> 0, lastwhat |-> "init"]

Rej(a, why) == [a EXCEPT !.ph = "rej", !.why = why, !.lastwhat = "Reject_" \o why]
Starve(a)   == [a EXCEPT !.ph = "starved", !.lastwhat = "Starved"]
Mism(a, why) == [a EXCEPT !.ph = "mismatch", !.why = why, !.lastwhat = "Mismatch"]

\* expected plaintext byte i (Verify mode) / produced byte i (Produce mode)
OutByte(a, p, i) == IF a.produce THEN a.ob[i] ELSE p[i]

EndBlock(a, pos, out) ==
  [a EXCEPT !.ph = IF a.fin THEN "trailer" ELSE "bhdr", !.pos = pos, !.out = out,
            !.nblk = @ + 1,
            !.blocks = Append(@, [type |-> a.btype, fin |-> a.fin, startbit |-> a.blkstart,
                                  endbit |-> pos, outstart |-> a.blkout, outend |-> out])]

-----------------------------------------------------------------------------
StepZhdr(a, z) ==
  IF AvailBits(z, a.pos) < 16 THEN Starve(a)
  ELSE LET cmf == z[1]  flg == z[2] IN
    IF cmf % 16 # 8 THEN Rej(a, "zlib_cm")
    ELSE IF cmf \div 16 > 7 THEN Rej(a, "zlib_cinfo")
    ELSE IF (flg \div 32) % 2 # 0 THEN Rej(a, "zlib_fdict")
    ELSE IF (cmf * 256 + flg) % 31 # 0 THEN Rej(a, "zlib_fcheck")
    ELSE [a EXCEPT !.ph = "bhdr", !.pos = 16, !.cmf = cmf, !.flg = flg, !.lastwhat = "ZlibHeader"]

StepBhdr(a, z) ==
  IF AvailBits(z, a.pos) < 3 THEN Starve(a)
  ELSE LET v == Peek(z, a.pos, 3)
           fin == v % 2 = 1
           ty == v \div 2
           b == [a EXCEPT !.fin = fin, !.btype = ty, !.pos = a.pos + 3, !.btypes = @ \cup {ty},
                          !.blkstart = a.pos, !.blkout = a.out, !.lastwhat = "BlockHeader"]
       IN CASE ty = 0 -> [b EXCEPT !.ph = "stored"]
            [] ty = 1 -> [b EXCEPT !.ph = "data", !.tl = FixedLit, !.td = FixedDist]
            [] ty = 2 -> [b EXCEPT !.ph = "dyn"]
            [] OTHER  -> Rej(b, "btype3")

StepStored(a, z, p) ==
  LET bp == (a.pos + 7) \div 8          \* bytes fully skipped: header starts at byte bp+1
  IN IF Len(z) - bp < 4 THEN Starve(a)
     ELSE LET len  == z[bp+1] + 256 * z[bp+2]
              nlen == z[bp+3] + 256 * z[bp+4]
              d0 == bp + 4
          IN IF len + nlen # 65535 THEN Rej(a, "stored_len")
             ELSE IF Len(z) - d0 < len THEN Starve([a EXCEPT !.pos = 8 * d0])
             ELSE LET data == SubSeq(z, d0 + 1, d0 + len)
                      b == [a EXCEPT !.maxstored = Max2(@, len), !.lastwhat = "Stored"]
                  IN IF a.produce
                       THEN EndBlock([b EXCEPT !.ob = @ \o data], 8 * (d0 + len), a.out + len)
                     ELSE IF a.out + len > a.plen THEN Mism(b, "longer_than_expected")
                     ELSE IF data # SubSeq(p, a.out + 1, a.out + len) THEN Mism(b, "stored_bytes")
                     ELSE EndBlock(b, 8 * (d0 + len), a.out + len)

StepDyn(a, z) ==
  IF AvailBits(z, a.pos) < 14 THEN Starve(a)
  ELSE LET hlit == Peek(z, a.pos, 5) + 257
           hdist == Peek(z, a.pos + 5, 5) + 1
           hclen == Peek(z, a.pos + 10, 4) + 4
       IN IF hlit > 286 THEN Rej(a, "hlit")
          ELSE IF hdist > 30 THEN Rej(a, "hdist")
          ELSE [a EXCEPT !.ph = "cl", !.pos = a.pos + 14, !.hlit = hlit, !.hdist = hdist,
                         !.hclen = hclen, !.lastwhat = "TableSizes"]

StepCl(a, z) ==
  IF AvailBits(z, a.pos) < 3 * a.hclen THEN Starve(a)
  ELSE LET raw == [i \in 1..a.hclen |-> Peek(z, a.pos + 3 * (i-1), 3)]
           \* lens of the code-length alphabet, symbol s at index s+1
           cl == [s \in 1..19 |->
                    LET ks == {k \in 1..a.hclen : ClOrder[k] = s-1}
                    IN IF ks = {} THEN 0 ELSE raw[CHOOSE k \in ks : TRUE]]
           t == MkTable(cl)
       IN IF t.shape = "over" THEN Rej(a, "cl_over")
          ELSE IF t.shape = "incomplete" THEN Rej(a, "cl_incomplete")
          ELSE [a EXCEPT !.ph = "lens", !.pos = a.pos + 3 * a.hclen, !.tc = t, !.lens = <<>>,
                         !.lastwhat = "CodeLengthCode"]

Rep(x, n) == [i \in 1..n |-> x]

FinishLens(a) ==
  LET ll == SubSeq(a.lens, 1, a.hlit)
      dl == SubSeq(a.lens, a.hlit + 1, a.hlit + a.hdist)
      tl == MkTable(ll)
      td == MkTable(dl)
      bad(t) == t.shape = "over" \/ (t.shape = "incomplete" /\ t.maxlen > 1)
  IN IF tl.shape = "over" THEN Rej(a, "lit_over")
     ELSE IF bad(tl) THEN Rej(a, "lit_incomplete")
     ELSE IF td.shape = "over" THEN Rej(a, "dist_over")
     ELSE IF bad(td) THEN Rej(a, "dist_incomplete")
     ELSE [a EXCEPT !.ph = "data", !.tl = tl, !.td = td, !.lens = <<>>,
                    !.maxcodelen = Max2(@, Max2(tl.maxlen, td.maxlen)),
                    !.lastwhat = "BuildTables"]

StepLens1(a, z) ==
  LET total == a.hlit + a.hdist
      av == AvailBits(z, a.pos)
      d == Decode(a.tc, Peek(z, a.pos, 15))
  IN IF d.len = 0 THEN (IF av >= 15 THEN Rej(a, "cl_badcode") ELSE Starve(a))
     ELSE IF d.len > av THEN Starve(a)
     ELSE LET pos1 == a.pos + d.len
              have == Len(a.lens)
              add(run, nbits, val) ==
                 IF have + run > total THEN Rej(a, "len_run_overflow")
                 ELSE LET b == [a EXCEPT !.lens = @ \o Rep(val, run), !.pos = pos1 + nbits,
                                         !.lastwhat = "CodeLength"]
                      IN IF have + run = total THEN FinishLens(b) ELSE b
          IN CASE d.sym <= 15 -> add(1, 0, d.sym)
               [] d.sym = 16 ->
                    IF have = 0 THEN Rej(a, "repeat_no_prev")
                    ELSE IF av - d.len < 2 THEN Starve(a)
                    ELSE add(3 + Peek(z, pos1, 2), 2, a.lens[have])
               [] d.sym = 17 ->
                    IF av - d.len < 3 THEN Starve(a) ELSE add(3 + Peek(z, pos1, 3), 3, 0)
               [] OTHER ->
                    IF av - d.len < 7 THEN Starve(a) ELSE add(11 + Peek(z, pos1, 7), 7, 0)

\* all code lengths of a dynamic block header in one step (at most 316 symbols)
RECURSIVE StepLens(_, _)
StepLens(a, z) == LET b == StepLens1(a, z) IN IF b.ph = "lens" THEN StepLens(b, z) ELSE b

\* plaintext offset of the last full-flush cut at or before `out`
CutBefore(a) == LET cs == {c \in a.cuts : c <= a.out} IN
                IF cs = {} THEN 0 ELSE CHOOSE c \in cs : \A e \in cs : e <= c

StepData(a, z, p) ==
  LET av == AvailBits(z, a.pos)
      d == Decode(a.tl, Peek(z, a.pos, 15))
  \* (a code without any code word can never match, however many bits follow)
  IN IF d.len = 0 THEN (IF av >= 15 \/ a.tl.maxlen = 0 THEN Rej(a, "lit_badcode") ELSE Starve(a))
     ELSE IF d.len > av THEN Starve(a)
     ELSE LET pos1 == a.pos + d.len IN
       IF d.sym < 256 THEN
          LET b == [a EXCEPT !.pos = pos1, !.out = a.out + 1, !.nlit = @ + 1, !.lastwhat = "Literal"]
          IN IF a.produce THEN [b EXCEPT !.ob = Append(@, d.sym)]
             ELSE IF a.out + 1 > a.plen THEN Mism(a, "longer_than_expected")
             ELSE IF p[a.out + 1] # d.sym THEN Mism(a, "literal")
             ELSE b
       ELSE IF d.sym = 256 THEN EndBlock([a EXCEPT !.lastwhat = "EndOfBlock"], pos1, a.out)
       ELSE IF d.sym > 285 THEN Rej(a, "len_symbol")
       ELSE
          LET li == d.sym - 256
              le == LenExtra[li]
          IN IF av - d.len < le THEN Starve(a)
             ELSE
             LET len == LenBase[li] + Peek(z, pos1, le)
                 pos2 == pos1 + le
                 av2 == av - d.len - le
                 dd == Decode(a.td, Peek(z, pos2, 15))
             IN IF dd.len = 0 THEN (IF av2 >= 15 \/ a.td.maxlen = 0 THEN Rej(a, "dist_badcode") ELSE Starve(a))
                ELSE IF dd.len > av2 THEN Starve(a)
                ELSE IF dd.sym > 29 THEN Rej(a, "dist_symbol")
                ELSE
                LET de == DistExtra[dd.sym + 1]
                    pos3 == pos2 + dd.len
                IN IF av2 - dd.len < de THEN Starve(a)
                   ELSE
                   LET dist == DistBase[dd.sym + 1] + Peek(z, pos3, de)
                       pos4 == pos3 + de
                       b == [a EXCEPT !.pos = pos4, !.out = a.out + len, !.nmatch = @ + 1,
                                      !.minlen = Min2(@, len), !.maxlen = Max2(@, len),
                                      !.maxdist = Max2(@, dist),
                                      !.nonrle = @ \/ dist # 1,
                                      !.crosscut = @ \/ (a.out - dist < CutBefore(a)),
                                      !.lastwhat = "Match"]
                   IN IF dist > a.out THEN Rej(a, "dist_before_start")
                      ELSE IF a.produce
                        THEN LET RECURSIVE cp(_, _)
                                 cp(o, k) == IF k = 0 THEN o
                                             ELSE cp(Append(o, o[Len(o) + 1 - dist]), k - 1)
                             IN [b EXCEPT !.ob = cp(a.ob, len)]
                      ELSE IF a.out + len > a.plen THEN Mism(a, "longer_than_expected")
                      ELSE IF \E k \in 1..len : p[a.out + k] # p[a.out + k - dist]
                        THEN Mism(a, "match_bytes")
                      ELSE b

StepTrailer(a, z, p) ==
  LET bp == (a.pos + 7) \div 8
  IN IF ~a.zlib THEN
       (IF ~a.produce /\ a.out # a.plen THEN Mism(a, "shorter_than_expected")
        ELSE [a EXCEPT !.ph = "done", !.endbyte = bp, !.lastwhat = "EndRaw"])
     ELSE IF Len(z) - bp < 4 THEN Starve([a EXCEPT !.pos = 8 * bp])
     ELSE IF ~a.produce /\ a.out # a.plen THEN Mism(a, "shorter_than_expected")
     ELSE LET ad == AdlerSeq(AdlerInit, IF a.produce THEN a.ob ELSE SubSeq(p, 1, a.plen))
          IN IF ~a.ignadler /\ SubSeq(z, bp + 1, bp + 4) # AdlerBytes(ad) THEN Rej(a, "adler")
             ELSE [a EXCEPT !.ph = "done", !.endbyte = bp + 4, !.pos = 8 * (bp + 4),
                            !.lastwhat = "Trailer"]

Step(a, z, p) ==
  CASE a.produce /\ a.out > a.cap -> [a EXCEPT !.ph = "capped", !.lastwhat = "Capped"]
    [] a.ph = "zhdr"    -> StepZhdr(a, z)
    [] a.ph = "bhdr"    -> StepBhdr(a, z)
    [] a.ph = "stored"  -> StepStored(a, z, p)
    [] a.ph = "dyn"     -> StepDyn(a, z)
    [] a.ph = "cl"      -> StepCl(a, z)
    [] a.ph = "lens"    -> StepLens(a, z)
    [] a.ph = "data"    -> StepData(a, z, p)
    [] a.ph = "trailer" -> StepTrailer(a, z, p)
    [] OTHER -> a

\* a compact verdict record (what trace specs compare against)
Verdict(a) ==
  [v |-> a.ph, why |-> a.why, out |-> a.out, endbyte |-> a.endbyte]

=============================================================================
