----------------------------- MODULE CApiStream -----------------------------
(***************************************************************************)
(* The mz_stream entry points of the C shim (src/lib.rs oxidize! macro,    *)
(* StreamOxide::try_new / into_mz_stream in src/c_export.rs, and the       *)
(* *_oxide functions in src/lib_oxide.rs) as a state machine over what a C *)
(* caller can do to one mz_stream object: initialise it as either kind     *)
(* with valid or invalid parameters, set or clear the allocator callbacks  *)
(* and the buffer pointers, call deflate / inflate / reset / end of either *)
(* kind in any order, with valid or invalid flush values.  The engines     *)
(* themselves are abstract (they may consume/produce within what is        *)
(* available); what is modelled is the shim: type tag, state ownership,    *)
(* parameter validation, accounting write-back.  (C17)                     *)
(***************************************************************************)
EXTENDS Integers, TLC

Kinds == {"Deflate", "Inflate"}
OK == 0
END == 1
E_STREAM == -2
E_PARAM == -10000
E_OTHER == -5            \* any status the engine itself may return (buffer / data error)

VARIABLES
  dtype,      \* stream.data_type: "None" | "Deflate" | "Inflate"
  inner,      \* what stream.state holds: "none" | "Deflate" | "Inflate"
  alloc,      \* zalloc or zfree set by the caller
  inNull, outNull,
  tin, tout,  \* total_in / total_out, abstracted to 0 / 1 (zero / non-zero)
  ret,        \* last return code
  what,       \* last call: [fn, misuse]
  engineRan   \* the last call reached the compression / decompression engine of this kind ("no" otherwise)
vars == <<dtype, inner, alloc, inNull, outNull, tin, tout, ret, what, engineRan>>

Init == /\ dtype = "None" /\ inner = "none" /\ alloc = FALSE /\ inNull = TRUE /\ outNull = TRUE
        /\ tin = 0 /\ tout = 0 /\ ret = 0 /\ what = [fn |-> "none", misuse |-> FALSE] /\ engineRan = "no"

\* the C caller edits fields directly
SetFields ==
  /\ alloc' \in BOOLEAN /\ inNull' \in BOOLEAN /\ outNull' \in BOOLEAN
  /\ what' = [fn |-> "set", misuse |-> FALSE] /\ engineRan' = "no"
  /\ UNCHANGED <<dtype, inner, tin, tout, ret>>

\* StreamOxide::try_new fails on a foreign type tag or custom allocators
TryNewFails(k) == dtype # k \/ alloc

\* mz_deflateInit2 / mz_inflateInit2: the tag is written first, then try_new, then validation
Init2(k, valid) ==
  /\ dtype' = k
  /\ engineRan' = "no"
  /\ what' = [fn |-> "init", misuse |-> alloc \/ ~valid]
  /\ IF alloc THEN ret' = E_PARAM /\ UNCHANGED <<inner, tin, tout>>
     ELSE IF ~valid THEN ret' = E_PARAM /\ UNCHANGED <<inner, tin, tout>>
     ELSE ret' = OK /\ inner' = k /\ tin' = 0 /\ tout' = 0
  /\ UNCHANGED <<alloc, inNull, outNull>>

\* mz_deflate / mz_inflate
Call(k, flushValid) ==
  LET mis == TryNewFails(k) \/ inner # k \/ inNull \/ outNull \/ ~flushValid
  IN /\ what' = [fn |-> "call", misuse |-> mis]
     /\ IF TryNewFails(k) THEN ret' = E_PARAM /\ engineRan' = "no" /\ UNCHANGED <<inner, tin, tout>>
        ELSE IF inner = "none" THEN ret' = E_STREAM /\ engineRan' = "no" /\ UNCHANGED <<inner, tin, tout>>
        ELSE IF inner # k THEN ret' = E_STREAM /\ engineRan' = "no" /\ UNCHANGED <<inner, tin, tout>>
        ELSE IF inNull \/ outNull THEN ret' = E_STREAM /\ engineRan' = "no" /\ UNCHANGED <<inner, tin, tout>>
        ELSE IF ~flushValid THEN ret' = E_PARAM /\ engineRan' = "no" /\ UNCHANGED <<inner, tin, tout>>
        ELSE /\ engineRan' = k
             /\ ret' \in {OK, END, E_OTHER}
             /\ tin' \in {tin, 1} /\ tout' \in {tout, 1}
             /\ UNCHANGED inner
     /\ UNCHANGED <<dtype, alloc, inNull, outNull>>

\* mz_deflateEnd / mz_inflateEnd
End(k) ==
  /\ what' = [fn |-> "end", misuse |-> TryNewFails(k)]
  /\ engineRan' = "no"
  /\ IF TryNewFails(k) THEN ret' = E_PARAM /\ UNCHANGED inner
     ELSE ret' = OK /\ inner' = "none"
  /\ UNCHANGED <<dtype, alloc, inNull, outNull, tin, tout>>

\* mz_deflateReset: totals and buffer pointers are cleared before the state is looked at
Reset ==
  /\ what' = [fn |-> "reset", misuse |-> TryNewFails("Deflate") \/ inner # "Deflate"]
  /\ engineRan' = "no"
  /\ IF TryNewFails("Deflate") THEN ret' = E_PARAM /\ UNCHANGED <<tin, tout, inNull, outNull>>
     ELSE /\ tin' = 0 /\ tout' = 0 /\ inNull' = TRUE /\ outNull' = TRUE
          /\ ret' = IF inner = "Deflate" THEN OK ELSE E_STREAM
  /\ UNCHANGED <<dtype, inner, alloc>>

Next ==
  \/ SetFields
  \/ \E k \in Kinds, v \in BOOLEAN : Init2(k, v)
  \/ \E k \in Kinds, v \in BOOLEAN : Call(k, v)
  \/ \E k \in Kinds : End(k)
  \/ Reset

Spec == Init /\ [][Next]_vars

-----------------------------------------------------------------------------
\* misuse expressible in C yields an error code, never success
MisuseIsError == what.misuse => ret < 0

\* an engine only ever runs on a state of its own kind, with both buffers present
NoTypeConfusion == engineRan # "no" => inner = engineRan /\ dtype = engineRan /\ ~inNull /\ ~outNull /\ ~alloc

\* a stream that was never successfully initialised (or was ended) holds no state
TagImpliesNothing == inner # "none" => dtype # "None"

\* totals only move when an engine ran (or on a successful init / reset)
TotalsStable == [][(tin' # tin \/ tout' # tout) => (engineRan' # "no" \/ what'.fn \in {"init", "reset"})]_vars
\* a refused call (wrong kind, custom allocator, bad flush value, missing buffer) leaves the stream
\* state where it was: the caller can carry on with the stream afterwards
RefusalKeepsState == [][(what'.misuse /\ what'.fn \in {"call", "end", "reset"}) => inner' = inner]_vars
=============================================================================
