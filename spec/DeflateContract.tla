--------------------------- MODULE DeflateContract ---------------------------
(***************************************************************************)
(* Per-call contracts of the compressor-side API: what any correct         *)
(* implementation must satisfy on each call, deliberately permissive       *)
(* wherever the properties are (block cutting, token choice, how much is   *)
(* buffered).  Used                                                         *)
(*   - by the trace specs, to judge every real call;                       *)
(*   - by the implementation-shaped models (DeflateCore, DeflateStream),   *)
(*     which TLC checks to refine these contracts.                         *)
(*                                                                         *)
(* A contract state `c` summarises the history of one compressor object:   *)
(*   tin, tout   total bytes consumed / produced                           *)
(*   fin         a Finish request has been made                            *)
(*   ended       Done / StreamEnd has been returned                        *)
(*   err         an error status has been returned                         *)
(* A call record `e` has in_len, out_len (absent for callback output),     *)
(* flush, status, consumed, written.                                       *)
(***************************************************************************)
EXTENDS Integers, Sequences

CInit == [tin |-> 0, tout |-> 0, fin |-> FALSE, ended |-> FALSE, err |-> FALSE, ncalls |-> 0,
          adler |-> <<1, 0>>]

HasF(r, f) == f \in DOMAIN r

If(c, name) == IF c THEN <<>> ELSE <<name>>

-----------------------------------------------------------------------------
(* Low-level compress() / compress_to_output() on a legal schedule         *)
(* (Finish sticky once issued, no call after Done): C02                    *)

CompRules(c, e) ==
     If(e.consumed <= e.in_len, "comp_consumed_le_offered")
  \o If(HasF(e, "out_len") => e.written <= e.out_len, "comp_written_le_offered")
  \o If(e.status \in {"Okay", "Done"}, "comp_status_on_legal_schedule")
  \o If(e.status = "Done" => e.flush = "Finish" /\ e.consumed = e.in_len, "comp_done_only_at_finish")
  \o If(~c.ended, "comp_call_after_done")

CompNext(c, e) ==
  [c EXCEPT !.tin = @ + e.consumed, !.tout = @ + e.written,
            !.fin = @ \/ e.flush = "Finish", !.ended = @ \/ e.status = "Done",
            !.err = @ \/ e.status \notin {"Okay", "Done"}, !.ncalls = @ + 1]

-----------------------------------------------------------------------------
(* deflate() wrapper: C14                                                   *)

IsErr(s) == s \in {"ErrBuf", "ErrParam", "ErrStream", "ErrData", "ErrMem", "ErrErrNo", "ErrVersion"}

DeflRules(c, e) ==
  LET misuse == c.fin /\ e.flush # "Finish" /\ ~c.ended   \* non-Finish after Finish
      usable == e.out_len > 0 /\ ~c.ended /\ ~c.err /\ ~misuse
  IN If(e.consumed <= e.in_len, "defl_consumed_le_offered")
  \o If(e.written <= e.out_len, "defl_written_le_offered")
  \o If(e.out_len = 0 => e.status = "ErrBuf" /\ e.consumed = 0 /\ e.written = 0,
        "defl_empty_output_refused")
  \o If(c.ended /\ e.out_len > 0 =>
          IF e.flush = "Finish" THEN e.status = "StreamEnd" /\ e.consumed = 0 /\ e.written = 0
          ELSE e.status = "ErrBuf" /\ e.consumed = 0 /\ e.written = 0,
        "defl_after_stream_end")
  \o If(misuse /\ e.out_len > 0 /\ ~c.err => IsErr(e.status) /\ e.written = 0 /\ e.consumed = 0,
        "defl_nonfinish_after_finish_is_error")
  \* (input offered after the stream was already finished by an earlier Finish call with
  \* no input left is not consumed; the property does not speak about it)
  \o If(e.status = "StreamEnd" /\ ~c.ended => e.flush = "Finish", "defl_stream_end_only_after_finish")
  \o If(usable /\ e.flush = "Finish" /\ e.status # "StreamEnd" =>
          e.status = "Ok" /\ e.written = e.out_len,
        "defl_finish_works_until_end_or_output_full")
  \o If(usable /\ (e.in_len > 0 \/ e.flush # "None") =>
          e.consumed + e.written > 0 \/ e.status = "StreamEnd",
        "defl_progress")
  \o If(usable => ~IsErr(e.status) \/ (e.status = "ErrBuf" /\ e.in_len = 0 /\ e.flush = "None"
                                       /\ e.consumed = 0 /\ e.written = 0),
        "defl_no_spurious_error")

DeflNext(c, e) ==
  LET misuse == c.fin /\ e.flush # "Finish" /\ ~c.ended
  IN [c EXCEPT !.tin = @ + e.consumed, !.tout = @ + e.written,
               !.fin = @ \/ (e.flush = "Finish" /\ e.out_len > 0),
               !.ended = @ \/ e.status = "StreamEnd",
               !.err = @ \/ (misuse /\ e.out_len > 0), !.ncalls = @ + 1]

=============================================================================
