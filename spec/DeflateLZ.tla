------------------------------ MODULE DeflateLZ ------------------------------
(***************************************************************************)
(* The match-finding front end of the compressor: compress_normal of       *)
(* miniz_oxide/src/deflate/core.rs (levels 2..10, also the RLE strategy),  *)
(* scaled down.  What is modelled is the data structure the real code      *)
(* depends on and that no other model covers:                              *)
(*                                                                         *)
(*   - the dictionary ring of DICT bytes followed by a MIRROR of its first *)
(*     MAXM-1 bytes (so that up to MAXM bytes can be read from any ring    *)
(*     position without wrapping),                                         *)
(*   - the look-ahead (bytes copied into the ring but not yet tokenised),  *)
(*     topped up to MAXM bytes from the caller's input on every round,     *)
(*   - dict.size, the amount of history that is still intact: clamped to   *)
(*     DICT - lookahead when the look-ahead overwrites old history, grown  *)
(*     by every token, cleared by a full flush,                            *)
(*   - greedy / lazy parsing with the saved literal and saved match that   *)
(*     survive between calls, the run-length matcher,                      *)
(*   - calls with arbitrary input chunking and flush requests.             *)
(*                                                                         *)
(* The hash chains are abstracted: find_match may return ANY candidate at  *)
(* a distance within the intact history whose bytes - read from the ring   *)
(* exactly as the code reads them (masked base, unmasked offset, so the    *)
(* mirror is used near the end of the ring) - equal the look-ahead.  The   *)
(* real chains yield a subset of these candidates.                         *)
(*                                                                         *)
(* Real constants: DICT = 32768, MAXM = 258, MINM = 3.  The structure of   *)
(* the arithmetic does not depend on them; TLC checks DICT = 8, MAXM = 4.  *)
(*                                                                         *)
(* StateRules is evaluated both here (on the model's own state) and by the *)
(* trace specification on the state the real compressor exposes through    *)
(* the verification hook after every call - one source of truth.           *)
(***************************************************************************)
EXTENDS Integers, Sequences, TLC, DeflateLZRules

CONSTANTS DICT, MAXM, MINM, N, Alphabet, RLE, GREEDY, FlushSet,
          MUT      \* "none", or a named design mutation used to show the invariants have teeth

MASK(x) == x % DICT
MinL(a, b) == IF a <= b THEN a ELSE b

VARIABLES
  src,        \* the whole input of the stream (fixed for a behaviour)
  dict,       \* [0 .. DICT+MAXM-2 -> Alphabet]
  lapos,      \* lookahead_pos: absolute count of bytes moved out of the look-ahead
  lasize,     \* lookahead_size
  dsize,      \* dict.size
  spos,       \* bytes of src copied into the ring so far
  cend,       \* end of the input offered by the call in progress
  flush,      \* "None" | "Sync" | "Full" | "Finish" of the call in progress
  saved,      \* [len, dist, lit]: the deferred match of lazy parsing (len = 0: none)
  outp,       \* the bytes the recorded tokens decode to
  pc          \* "idle" | "fill" | "token"
vars == <<src, dict, lapos, lasize, dsize, spos, cend, flush, saved, outp, pc>>

NoSaved == [len |-> 0, dist |-> 0, lit |-> 0]

Init ==
  /\ src \in [1..N -> Alphabet]
  /\ dict = [i \in 0..(DICT + MAXM - 2) |-> 0]
  /\ lapos = 0 /\ lasize = 0 /\ dsize = 0 /\ spos = 0 /\ cend = 0 /\ flush = "None"
  /\ saved = NoSaved /\ outp = <<>> /\ pc = "idle"

\* compress(input chunk, flush)
Call(chunk, f) ==
  /\ pc = "idle" /\ spos + chunk <= N
  /\ cend' = spos + chunk /\ flush' = f /\ pc' = "fill"
  /\ UNCHANGED <<src, dict, lapos, lasize, dsize, spos, saved, outp>>

\* the loop condition of compress_normal
LoopOn == spos < cend \/ (flush # "None" /\ lasize # 0)

\* copy up to MAXM - lookahead bytes into the ring (and the mirror), then clamp dict.size
RECURSIVE Put(_, _, _, _)
Put(d, pos, bytes, k) ==
  IF k > Len(bytes) THEN d
  ELSE LET dst == MASK(pos + k - 1)
           mirrorLimit == IF MUT = "mirror_short" THEN MAXM - 2 ELSE MAXM - 1
           d1 == [d EXCEPT ![dst] = bytes[k]]
           d2 == IF dst < mirrorLimit THEN [d1 EXCEPT ![DICT + dst] = bytes[k]] ELSE d1
       IN Put(d2, pos, bytes, k + 1)

Fill ==
  /\ pc = "fill" /\ LoopOn
  /\ LET n == MinL(cend - spos, MAXM - lasize)
         bytes == [k \in 1..n |-> src[spos + k]]
         la2 == lasize + n
         clampTo == IF MUT = "clamp_plus1" THEN DICT + 1 - la2 ELSE DICT - la2
         ds2 == MinL(clampTo, dsize)
     IN /\ dict' = Put(dict, lapos + lasize, bytes, 1)
        /\ lasize' = la2 /\ spos' = spos + n /\ dsize' = ds2
        /\ pc' = IF flush = "None" /\ la2 < MAXM THEN "idle" ELSE "token"
  /\ UNCHANGED <<src, lapos, cend, flush, saved, outp>>

\* loop exit: nothing left to do for this call; a full flush forgets the history
Exit ==
  /\ pc = "fill" /\ ~LoopOn
  /\ pc' = "idle"
  /\ dsize' = IF flush = "Full" THEN 0 ELSE dsize
  /\ UNCHANGED <<src, dict, lapos, lasize, spos, cend, flush, saved, outp>>

\* bytes as the matcher reads them: masked base, unmasked offset (reaches into the mirror)
RD(base, i) == dict[base + i]
Cur == MASK(lapos)

\* length of the common prefix of the look-ahead and the ring content `dist` back
RECURSIVE Common(_, _, _)
Common(probe, i, lim) ==
  IF i >= lim THEN i
  ELSE IF RD(probe, i) = RD(Cur, i) THEN Common(probe, i + 1, lim) ELSE i

\* candidates the hash chains may produce: any distance within the intact history
Candidates ==
  { <<d, Common(MASK(lapos - d + DICT * (1 + (d \div DICT))), 0, MinL(lasize, MAXM))>> : d \in 1..dsize }

\* the run-length matcher: repeats of the byte before the current position
RECURSIVE RunLen(_, _)
RunLen(c, i) == IF i < lasize /\ dict[Cur + i] = c THEN RunLen(c, i + 1) ELSE i

\* decode one token onto the output
Lit(o, b) == Append(o, b)
RECURSIVE Copy(_, _, _)
\* (a distance reaching before the start of the output yields a byte no input has: -1)
Copy(o, dist, len) ==
  IF len = 0 THEN o
  ELSE Copy(Append(o, IF dist >= 1 /\ dist <= Len(o) THEN o[Len(o) + 1 - dist] ELSE -1), dist, len - 1)

\* one round of tokenising: choose the current match, then the greedy / lazy decision
Tokenise ==
  /\ pc = "token"
  /\ \E cm \in (IF RLE
                  THEN (IF dsize # 0
                          THEN LET r == RunLen(dict[MASK(Cur - 1 + DICT)], 0)
                               IN {IF r < MINM \/ Cur = 1 THEN <<0, 0>> ELSE <<1, r>>}
                          ELSE {<<0, 0>>})
                  ELSE {<<0, 0>>} \cup
                       {c \in Candidates : c[2] >= MINM /\ c[2] > (IF saved.len # 0 THEN saved.len ELSE MINM - 1)
                                           /\ Cur # c[1]}) :
       LET cdist == cm[1]
           clen == cm[2]
           curlit == dict[Cur]
           \* outcome: <<new output, new saved, len_to_move>>
           r == IF saved.len # 0
                  THEN IF clen > saved.len
                         THEN IF clen >= MAXM   \* "cur_match_len >= 128": long enough, take it now
                                THEN <<"lit+match", NoSaved, clen>>
                                ELSE <<"lit", [len |-> clen, dist |-> cdist, lit |-> curlit], 1>>
                         ELSE <<"saved", NoSaved, saved.len - 1>>
                ELSE IF cdist = 0 THEN <<"curlit", NoSaved, 1>>
                ELSE IF GREEDY \/ RLE \/ clen >= MAXM THEN <<"match", NoSaved, clen>>
                ELSE <<"defer", [len |-> clen, dist |-> cdist, lit |-> curlit], 1>>
           o1 == CASE r[1] = "lit+match" -> Lit(outp, saved.lit)
                   [] r[1] = "lit"       -> Lit(outp, saved.lit)
                   [] r[1] = "curlit"    -> Lit(outp, curlit)
                   [] OTHER              -> outp
           mdist == CASE r[1] = "lit+match" -> cdist [] r[1] = "match" -> cdist [] r[1] = "saved" -> saved.dist [] OTHER -> 0
           mlen  == CASE r[1] = "lit+match" -> clen  [] r[1] = "match" -> clen  [] r[1] = "saved" -> saved.len  [] OTHER -> 0
       IN /\ outp' = IF mlen > 0 THEN Copy(o1, mdist, mlen) ELSE o1
          /\ saved' = r[2]
          /\ lapos' = lapos + r[3]
          /\ lasize' = lasize - r[3]
          /\ dsize' = MinL(dsize + r[3], DICT)
          /\ pc' = "fill"
  /\ UNCHANGED <<src, dict, spos, cend, flush>>

Next ==
  \/ \E c \in 0..N, f \in FlushSet : Call(c, f)
  \/ Fill \/ Exit \/ Tokenise

Spec == Init /\ [][Next]_vars

-----------------------------------------------------------------------------
(* The projection of the state that the implementation exposes through the  *)
(* hook (lookahead_pos, lookahead_size, dict.size, and the ring compared    *)
(* with the input by the harness), and the rules on it.                     *)

\* smallest k in 1..dsize with ring[(lapos-k) mod DICT] # src[lapos-k+1], or 0
HistBad == LET bad == {k \in 1..dsize : k > lapos \/ dict[MASK(lapos - k + DICT * (1 + (k \div DICT)))] # src[lapos - k + 1]}
           IN IF bad = {} THEN 0 ELSE CHOOSE k \in bad : \A j \in bad : k <= j
\* smallest i+1 with ring[(lapos+i) mod DICT] # src[lapos+i+1], i < lasize, or 0
LookBad == LET bad == {i \in 1..lasize : dict[MASK(lapos + i - 1)] # src[lapos + i]}
           IN IF bad = {} THEN 0 ELSE CHOOSE k \in bad : \A j \in bad : k <= j
\* smallest j+1 with mirror[j] # ring[j], or 0
MirrorBad == LET bad == {j \in 1..(MAXM - 1) : dict[DICT + j - 1] # dict[j - 1]}
             IN IF bad = {} THEN 0 ELSE CHOOSE k \in bad : \A j \in bad : k <= j

Proj == [lapos |-> lapos, lasize |-> lasize, dsize |-> dsize, taken |-> spos,
         hist_bad |-> HistBad, look_bad |-> LookBad, mirror_bad |-> MirrorBad,
         saved_len |-> saved.len, idle |-> pc = "idle", flush |-> flush, fillmax |-> lasize + dsize]

\* at every call boundary (where the real state can be observed)
StateRulesHold == pc = "idle" => StateRules(Proj, DICT, MAXM) = <<>>
\* and, stronger, at every step of the model
StateRulesHoldAlways == StateRules([Proj EXCEPT !.idle = FALSE], DICT, MAXM) = <<>>

\* the tokens recorded so far decode to exactly the bytes moved out of the look-ahead
\* (less the one byte a deferred match is holding back)
TokensDecodeToInput ==
  /\ Len(outp) = lapos - (IF saved.len # 0 THEN 1 ELSE 0)
  /\ \A i \in 1..Len(outp) : outp[i] = src[i]

\* a deferred match is always still valid where it will be emitted
SavedMatchValid ==
  saved.len # 0 => /\ saved.dist >= 1 /\ saved.dist <= lapos - 1
                   /\ saved.len <= lasize + 1
                   /\ saved.lit = src[lapos]

\* after Finish / Sync / Full everything offered has been tokenised (except a held-back lazy byte: none)
FlushComplete == (pc = "idle" /\ flush # "None") => (lasize = 0 /\ spos = cend)

=============================================================================
