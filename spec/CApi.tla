-------------------------------- MODULE CApi --------------------------------
(***************************************************************************)
(* Contract of the C ABI shim (C17, C15): the mz_stream accounting         *)
(* identities, equality with the corresponding Rust call (the "twin"),     *)
(* parameter validation, and the advertised compression bound.             *)
(*                                                                         *)
(* A call record has `before` and `after` projections of the mz_stream     *)
(* (avail_in, avail_out, total_in, total_out, in_off, out_off = pointer    *)
(* offsets from the buffers handed in, adler as <<hi16, lo16>>), the       *)
(* return code, what the twin returned, the bytes both produced and the    *)
(* input bytes that were consumed.                                         *)
(***************************************************************************)
EXTENDS Integers, Sequences

CIff(name, c) == IF c THEN <<>> ELSE <<name>>

MZ_OK == 0
MZ_STREAM_END == 1
MZ_STREAM_ERROR == -2
MZ_DATA_ERROR == -3
MZ_BUF_ERROR == -5
MZ_PARAM_ERROR == -10000

\* mz_deflateBound / mz_compressBound, transcribed
Bound(n) ==
  LET a == 128 + (n * 110) \div 100
      b == 128 + n + ((n \div (31 * 1024)) + 1) * 5
  IN IF a >= b THEN a ELSE b

ValidInit(e) ==
  /\ e.wbits \in {15, -15}
  /\ (e.kind = "deflate" => e.method = 8 /\ e.mem_level \in 1..9)

InitRules(e) ==
     CIff("c_init_valid_parameters_accepted", ValidInit(e) => e.ret = MZ_OK /\ e.after.has_state)
  \o CIff("c_init_invalid_parameters_rejected", ~ValidInit(e) => e.ret = MZ_PARAM_ERROR)
  \o CIff("c_init_resets_totals", e.ret = MZ_OK => e.after.total_in = 0 /\ e.after.total_out = 0)

\* accounting around one mz_deflate / mz_inflate call
Accounting(e) ==
  LET b == e.before
      a == e.after
      din == b.avail_in - a.avail_in
      dout == b.avail_out - a.avail_out
  IN /\ din >= 0 /\ dout >= 0
     /\ a.avail_in >= 0 /\ a.avail_out >= 0
     /\ a.in_off - b.in_off = din /\ a.total_in - b.total_in = din
     /\ a.out_off - b.out_off = dout /\ a.total_out - b.total_out = dout

CallRules(e, wantAdler, checkAdler) ==
  LET din == e.before.avail_in - e.after.avail_in
      dout == e.before.avail_out - e.after.avail_out
  IN CIff("c_pointer_avail_total_move_together_within_bounds", Accounting(e))
  \o CIff("c_same_status_as_rust_call", e.ret = e.twin.ret)
  \o CIff("c_same_counts_as_rust_call", din = e.twin.consumed /\ dout = e.twin.written)
  \o CIff("c_same_bytes_as_rust_call", e.data = e.twin_data)
  \o CIff("c_adler_field_is_running_checksum", checkAdler => e.after.adler = wantAdler)
=============================================================================
