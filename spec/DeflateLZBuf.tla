---------------------------- MODULE DeflateLZBuf ----------------------------
(***************************************************************************)
(* The LZ code buffer of the compressor (struct LZOxide, record_literal,   *)
(* record_match and the "buffer nearly full" test of compress_normal /     *)
(* compress_fast in miniz_oxide/src/deflate/core.rs).                      *)
(*                                                                         *)
(* Tokens are written as bytes into a buffer of SIZE bytes (65536): a      *)
(* literal is one byte, a match three; every eighth token a new flag byte  *)
(* is planted (one more byte).  One step of the lazy parser writes at most *)
(* a deferred literal followed by a match.  After every step the block is  *)
(* flushed if the position is beyond SIZE - MARGIN.  Writes index the      *)
(* buffer through a 16-bit cast: running past SIZE silently wraps onto the *)
(* first flag byte - nothing in the code would notice.                     *)
(*                                                                         *)
(* TLC checks (SIZE scaled down, every sequence of steps) that the margin  *)
(* of the code keeps every write inside the buffer, that a step never      *)
(* writes more than WorstStep bytes, and - with the margin of a seeded     *)
(* design mutation - that the invariant fails.  The trace specification    *)
(* evaluates LzBufRule on the largest start-of-step position the real      *)
(* compressor reported through the verif_lz_code_pos_max hook: a step of   *)
(* WorstStep bytes must still fit behind it (a sufficient condition that   *)
(* does not wait for the one input in thousands that makes the worst step  *)
(* happen exactly at the end of the buffer).                               *)
(***************************************************************************)
EXTENDS Integers, Sequences, DeflateLZBufRules

CONSTANTS SIZE, MARGIN

VARIABLES pos,        \* code_position (the next byte to write)
          flagsleft,  \* num_flags_left
          hi,         \* highest position written in the block so far
          stepmax     \* largest number of bytes written by one step
bvars == <<pos, flagsleft, hi, stepmax>>

BInit == pos = 1 /\ flagsleft = 8 /\ hi = 0 /\ stepmax = 0

\* write one token of n code bytes, then consume a flag (planting a new flag byte when the eighth is used)
Tok(p, f, n) == IF f = 1 THEN <<p + n + 1, 8>> ELSE <<p + n, f - 1>>

Step(kind) ==
  LET a == CASE kind = "lit" -> Tok(pos, flagsleft, 1)
             [] kind = "match" -> Tok(pos, flagsleft, 3)
             [] OTHER -> LET b == Tok(pos, flagsleft, 1) IN Tok(b[1], b[2], 3)     \* deferred literal + match
      np == a[1]
  IN /\ hi' = IF np - 1 > hi THEN np - 1 ELSE hi
     /\ stepmax' = IF np - pos > stepmax THEN np - pos ELSE stepmax
     /\ IF np > SIZE - MARGIN
          THEN pos' = 1 /\ flagsleft' = 8             \* flush_block: buffer restarts
          ELSE pos' = np /\ flagsleft' = a[2]

BNext == \E k \in {"lit", "match", "lit+match"} : Step(k)
BSpec == BInit /\ [][BNext]_bvars

\* every byte written lies inside the buffer
NoOverflow == hi <= SIZE - 1
\* no step writes more than WorstStep bytes
StepBound == stepmax <= WorstStep
\* the position a step starts from always leaves room for the worst step (what LzBufRule demands)
RoomAtStepStart == pos + WorstStep <= SIZE
=============================================================================
