----------------------------- MODULE DeflateCore -----------------------------
(***************************************************************************)
(* compress_inner / flush_block / flush_output_buffer of                   *)
(* miniz_oxide/src/deflate/core.rs and the deflate() loop of               *)
(* deflate/stream.rs, reduced to their buffer accounting: what has been    *)
(* taken from the caller, what sits in the lookahead, what has been        *)
(* tokenised into the current block, what has been generated and what of   *)
(* it is still pending delivery.  Token content is abstracted away (it is  *)
(* judged on real executions by the RFC acceptor); sizes are scaled:       *)
(*   LA     lookahead kept back while flush = None   (258 in the code)     *)
(*   LZCAP  tokens that fit the LZ code buffer        (64 Ki codes)        *)
(*   OUTBUF size from which the caller's buffer is written directly        *)
(*   a block of n input bytes occupies BlkSize(n) output bytes             *)
(* The caller is free: any chunk, any output size, any flush mode on every *)
(* call - including illegal orders, which must yield BadParam.             *)
(***************************************************************************)
EXTENDS Integers, Sequences, TLC, DeflateContract

CONSTANTS NIN,        \* total input bytes the caller owns
          LA, LZCAP, OUTBUF,
          Zlib,      \* zlib framing
          OutChoices,
          MaxItems   \* bound on the emitted item sequence (state constraint)

MinD(a, b) == IF a <= b THEN a ELSE b

BlkSize(n) == n + 1          \* abstract size of a block holding n input bytes
HdrSize == 2
TrlSize == 2
MarkSize(f) == CASE f \in {"Sync", "Full"} -> 2 [] f = "Partial" -> 1 [] OTHER -> 0

Flushes == {"None", "Sync", "Full", "Partial", "NoSync", "Finish"}

VARIABLES
  taken,      \* input bytes consumed from the caller so far
  la,         \* dict.lookahead_size: accepted but not yet tokenised
  lz,         \* lz.total_bytes: tokenised into the block being built
  blkidx,     \* params.block_index, abstracted to 0 (no flush_block yet) / 1
  pend,       \* output bytes generated but not yet handed to the caller (flush_remaining)
  fin,        \* params.finished
  pflush,     \* params.flush (flush of the previous call)
  prev,       \* params.prev_return_status
  hist,       \* dict.size # 0: matches can reach back (cleared by a Full flush)
  \* summary of the item sequence generated so far (items: H header, B block, M marker, T trailer)
  nitems, lastit, sumb, nfinal, ntrl, badorder,
  \* call in progress
  pc, cin, cout, cflush, cc, cw, croom, cp0,   \* cp0: output pending when the call was made
  cs, viol, res
vars == <<taken, la, lz, blkidx, pend, fin, pflush, prev, hist, nitems, lastit, sumb, nfinal, ntrl, badorder, pc, cin, cout, cflush, cc, cw, croom, cp0, cs, viol, res>>

Pending == pend

NoRes == [status |-> "none", consumed |-> 0, written |-> 0]

Init ==
  /\ taken = 0 /\ la = 0 /\ lz = 0 /\ blkidx = 0 /\ pend = 0 /\ fin = FALSE
  /\ pflush = "None" /\ prev = "Okay" /\ hist = FALSE
  /\ nitems = 0 /\ lastit = "none" /\ sumb = 0 /\ nfinal = 0 /\ ntrl = 0 /\ badorder = FALSE
  /\ pc = "idle" /\ cin = 0 /\ cout = 0 /\ cflush = "None" /\ cc = 0 /\ cw = 0 /\ croom = 0 /\ cp0 = 0
  /\ cs = CInit /\ viol = <<>> /\ res = NoRes

KeepCall == UNCHANGED <<cin, cout, cflush, cc, cw, croom, cp0>>
KeepItems == UNCHANGED <<nitems, lastit, sumb, nfinal, ntrl, badorder>>
KeepComp == UNCHANGED <<taken, la, lz, blkidx, pend, fin, hist>> /\ KeepItems

\* return from compress(): contract rules evaluated on the call record
Return(st, c, w) ==
  LET e == [in_len |-> cin, out_len |-> cout, flush |-> cflush, status |-> st, consumed |-> c, written |-> w]
      legal == ~(cs.fin /\ cflush # "Finish") /\ ~cs.ended /\ ~cs.err /\ ~(fin /\ cin > 0)
  IN /\ res' = e
     /\ viol' = (IF legal THEN CompRules(cs, e) ELSE <<>>)
     /\ cs' = [CompNext(cs, e) EXCEPT !.ncalls = 0, !.adler = <<1, 0>>, !.tin = 0, !.tout = 0]
     /\ prev' = st
     /\ pc' = "idle"

\* flush_output_buffer: hand over as much pending output as fits
Deliver(room) == MinD(room, Pending)

\* append items to the generated sequence (kept as a summary): H must come first, nothing but
\* the trailer may follow the final block, the trailer follows the final block
RECURSIVE Fold(_, _)
Fold(acc, its) ==
  IF its = <<>> THEN acc
  ELSE LET it == Head(its)
           k == it[1]
           bad == \/ (k = "H" /\ acc.n > 0)
                  \/ (acc.nf > 0 /\ k # "T")
                  \/ (k = "T" /\ acc.last # "BF")
                  \/ acc.nt > 0
       IN Fold([n |-> acc.n + 1, last |-> IF k = "B" /\ it[3] THEN "BF" ELSE k,
                sb |-> acc.sb + (IF k = "B" THEN it[2] ELSE 0),
                nf |-> acc.nf + (IF k = "B" /\ it[3] THEN 1 ELSE 0),
                nt |-> acc.nt + (IF k = "T" THEN 1 ELSE 0),
                bad |-> acc.bad \/ bad], Tail(its))
Emit(newitems) ==
  LET a == Fold([n |-> nitems, last |-> lastit, sb |-> sumb, nf |-> nfinal, nt |-> ntrl, bad |-> badorder], newitems)
  IN /\ nitems' = a.n /\ lastit' = a.last /\ sumb' = a.sb /\ nfinal' = a.nf /\ ntrl' = a.nt /\ badorder' = a.bad

-----------------------------------------------------------------------------
\* compress(d, chunk, out, flush)
Call(chunk, outsz, flush) ==
  /\ pc = "idle" /\ chunk <= NIN - taken
  /\ cin' = chunk /\ cout' = outsz /\ cflush' = flush /\ cc' = 0 /\ cw' = 0 /\ croom' = outsz /\ cp0' = Pending
  /\ pflush' = flush
  /\ pc' = IF prev # "Okay" \/ (pflush = "Finish" /\ flush # "Finish") THEN "bad"
           ELSE IF Pending # 0 \/ fin THEN "drain" ELSE "work"
  /\ KeepComp /\ UNCHANGED <<prev, cs, viol, res>>

\* prev_return_status not Okay, or a non-Finish flush after Finish
BadParam ==
  /\ pc = "bad"
  /\ Return("BadParam", 0, 0)
  /\ KeepComp /\ KeepCall /\ UNCHANGED pflush

\* output still pending (or already finished): only drain
Drain ==
  /\ pc = "drain"
  /\ LET n == Deliver(croom) IN
     /\ pend' = pend - n
     /\ Return(IF fin /\ Pending - n = 0 THEN "Done" ELSE "Okay", 0, n)
  /\ UNCHANGED <<taken, la, lz, blkidx, fin, hist, pflush>> /\ KeepItems /\ KeepCall

\* the LZ loop: accept one input byte into the lookahead
Take ==
  /\ pc = "work" /\ cc < cin
  /\ cc' = cc + 1 /\ la' = la + 1
  /\ UNCHANGED <<taken, lz, blkidx, pend, fin, pflush, prev, hist, pc, cin, cout, cflush, cw, croom, cp0, cs, viol, res>> /\ KeepItems

\* tokenise one byte of lookahead (with flush = None the loop keeps LA - 1 bytes back)
Tokenise ==
  /\ pc = "work" /\ lz < LZCAP
  /\ la > (IF cflush = "None" THEN LA - 1 ELSE 0)
  /\ (cc = cin \/ la >= LA)       \* the loop tops up the lookahead first
  /\ la' = la - 1 /\ lz' = lz + 1 /\ hist' = TRUE
  /\ UNCHANGED <<taken, blkidx, pend, fin, pflush, prev, pc, cin, cout, cflush, cc, cw, croom, cp0, cs, viol, res>> /\ KeepItems

\* flush_block as a function of (flush, state): new items and their size
BlockItems(f) ==
  LET hdr == IF Zlib /\ blkidx = 0 THEN <<<<"H">>>> ELSE <<>>
      blk == IF lz > 0 \/ f = "Finish" THEN <<<<"B", lz, f = "Finish">>>> ELSE <<>>
      mark == IF f \in {"Sync", "Full", "Partial"} THEN <<<<"M", f>>>> ELSE <<>>
      trl == IF f = "Finish" /\ Zlib THEN <<<<"T">>>> ELSE <<>>
  IN hdr \o blk \o mark \o trl
BlockBytes(f) ==
  (IF Zlib /\ blkidx = 0 THEN HdrSize ELSE 0)
  + (IF lz > 0 \/ f = "Finish" THEN BlkSize(lz) ELSE 0)
  + MarkSize(f)
  + (IF f = "Finish" /\ Zlib THEN TrlSize ELSE 0)

\* LZ code buffer full: the loop cuts a block on its own (flush_block(None)); if that leaves
\* output pending the call returns early with what it has consumed
InternalFlush ==
  /\ pc = "work" /\ lz = LZCAP
  /\ LET g == BlockBytes("None")
         n == MinD(croom, g)
     IN /\ Emit(BlockItems("None"))
        /\ pend' = pend + g - n /\ cw' = cw + n /\ croom' = croom - n
        /\ lz' = 0 /\ blkidx' = 1
        /\ IF n < g
             THEN /\ taken' = taken + cc
                  /\ Return("Okay", cc, cw + n)
                  /\ UNCHANGED <<cin, cout, cflush, cc, cp0>>
             ELSE /\ UNCHANGED <<taken, pc, cin, cout, cflush, cc, cp0, prev, cs, viol, res>>
  /\ UNCHANGED <<la, fin, pflush, hist>>

\* end of the LZ loop: all offered input accepted, lookahead tokenised as far as the flush
\* mode requires; then the caller's flush (if any) and the final delivery
Finishup ==
  /\ pc = "work" /\ cc = cin /\ lz < LZCAP
  /\ la <= (IF cflush = "None" THEN LA - 1 ELSE 0)
  /\ LET doflush == cflush # "None" /\ la = 0 /\ Pending = 0
         g == IF doflush THEN BlockBytes(cflush) ELSE 0
         n == MinD(croom, Pending + g)
         nfin == IF doflush THEN cflush = "Finish" ELSE fin
     IN /\ IF doflush
             THEN /\ Emit(BlockItems(cflush))
                  /\ lz' = 0 /\ blkidx' = 1
                  /\ hist' = IF cflush = "Full" THEN FALSE ELSE hist
             ELSE UNCHANGED <<lz, blkidx, hist>> /\ KeepItems
        /\ fin' = nfin
        /\ pend' = pend + g - n
        /\ taken' = taken + cc
        /\ Return(IF nfin /\ Pending + g - n = 0 THEN "Done" ELSE "Okay", cc, cw + n)
  /\ UNCHANGED <<la, pflush>> /\ KeepCall

Next ==
  \/ \E ch \in 0..(NIN - taken), o \in OutChoices, f \in Flushes : Call(ch, o, f)
  \/ BadParam \/ Drain \/ Take \/ Tokenise \/ InternalFlush \/ Finishup

Spec == Init /\ [][Next]_vars

Bound == nitems <= MaxItems

-----------------------------------------------------------------------------
(* Invariants (C02, C09, C12, C14 at the level of accounting).               *)

ContractHolds == viol = <<>>

\* pending output never goes negative (what was delivered is a prefix of what was generated)
PendingIsPrefix == pend >= 0

\* every byte taken from the caller is in exactly one place
Conservation == pc = "idle" => taken = sumb + lz + la

\* zlib header exactly once and first; trailer last; one final block, nothing after it
Framing ==
  /\ ~badorder
  /\ nfinal <= 1 /\ ntrl <= 1 /\ (ntrl = 1 => Zlib /\ nfinal = 1)
  /\ (fin => nfinal = 1 /\ (Zlib => ntrl = 1))
  /\ (Zlib /\ nitems > 0 => blkidx > 0)

\* Done exactly when finished and everything delivered
DoneTruthful == (res.status = "Done") => (fin /\ Pending = 0 /\ la = 0 /\ lz = 0)

\* a qualifying flush point (C12): a non-None, non-Finish flush issued with nothing pending that
\* returns having consumed everything with output space to spare leaves nothing buffered and
\* ends the item sequence with that flush's marker
FlushPoint ==
  (pc = "idle" /\ res.status = "Okay" /\ res.flush \in {"Sync", "Full", "Partial"}
     /\ res.consumed = res.in_len /\ res.written < res.out_len /\ cp0 = 0)
  => (lastit = "M" /\ Pending = 0 /\ la = 0 /\ lz = 0)

\* after a full flush the history is empty
FullCutsHistory == (res.status = "Okay" /\ res.flush = "Full" /\ cp0 = 0 /\ res.consumed = res.in_len
                      /\ res.written < res.out_len /\ pc = "idle") => ~hist

\* counts
CountsWithinOffered == res.status # "none" => res.consumed <= res.in_len /\ res.written <= res.out_len

=============================================================================
